import TypVerif.Props.C04trace
import TypVerif.Lemmas.SyncMapTraceComplete
/-
C04, COMPLETENESS of the step-trace judge "C04conc" (map mode): the converse of `Props/C04trace.lean`.  Acceptance of a
step trace by the judge is the pure function `Model.SyncMapTrace.replay` / `replayPad`, and

  every execution of the step-level model `SyncMapConc.sys` from its initial state  ⇒  the line list that records it
  (one line per step: `inv t op`, `step t <hook label>`, `iter t k`, `res t r`) is accepted, by `replay` from `init n`
  and by the judge's `replayPad` from `init 0`, with the model's final state                 (`trace_accept_complete`,
                                                                                              `judge_accept_complete`)

so that, together with `C04.trace_accept_sound`,

  "accepted by the replay"  =  "is an execution of the model", exactly                        (`trace_accept_iff`).

Consequence for the judge: it never rejects a faithful recording of a run the model allows (no false alarms from the
replay itself); a rejection means the recorded run left the model.

One fact about the model is used: a `range` choice is recorded by its KEY only (`iter t k`) and the replay takes the first
remaining pair with that key, so pick steps are reproduced exactly because the remaining pairs of an iterating goroutine
have pairwise distinct keys — which is part of the invariant proved for every reachable state (`C04.conc_inv`; used
through `Lemmas.SyncMapTrace.picksNodup_of_reachable`).  Hence the statements are about executions from the INITIAL state
(or from a reachable state), not from arbitrary states.

What this covers: the pure replay functions on parsed lines.  What it does NOT cover: parsing of the text lines into
`Line Int Int`, the set-mode (`cset`) composites, the printing of verdicts — these stay unverified driver glue; and, as
for soundness, that the recorded lines are a faithful record of what the real code did (hooks: `C04.gen_*`).
-/
namespace C04
open TypVerif TypVerif.Conc TypVerif.Model TypVerif.Model.SyncMapConc TypVerif.Model.SyncMapTrace TypVerif.Model.RelObj
open TypVerif.Lemmas.Smc (evOf mapSpec)

set_option linter.unusedSectionVars false

variable {K V : Type} [DecidableEq K] [DecidableEq V] [Inhabited V]

/-- **Every step of the model is accepted by the replay, with the corresponding line.**  In a reachable state `s`, for
every step `(l, s')` of the model there is a line — `inv t op` for an invocation, `res t r` for a return, `iter t k` for
a `range` choice, `step t <label of the hook goroutine t is parked at>` for every other atomic step (`LineFor`) — that
`applyLine` accepts in `s`, with result exactly `s'`, and whose visible event is the step's label.
Covers: one line of the pure replay.  Does not cover: text parsing, set mode (driver glue). -/
theorem line_accept_complete (menu : List (Op K V)) (n : Nat) (zst : Bool) {s s' : State K V}
    {l : Option (SyncMapConc.Event K V)} (hs : Reachable (sys K V menu n zst) s)
    (h : (l, s') ∈ SyncMapConc.succ menu s) :
    ∃ ln, applyLine s ln = some s' ∧ ln.event = l ∧ Lemmas.SyncMapTrace.LineFor menu s ln :=
  Lemmas.SyncMapTrace.applyLine_complete menu (Lemmas.SyncMapTrace.picksNodup_of_reachable hs) h

/-- **Every execution of the model is an accepted step trace.**  If the model `sys K V menu n zst` has an execution from
`init n zst` to `s` with labels `evs` (one label per step: `some (inv/res ..)` or `none`), then there is a line list
`ls` — one line per step — that the pure replay accepts from `init n zst` with final state exactly `s` and whose
line-by-line visible events are exactly `evs`.
Covers: the pure replay on parsed lines.  Does not cover: text parsing, set-mode composites (driver glue). -/
theorem trace_accept_complete (menu : List (Op K V)) (n : Nat) (zst : Bool) {s : State K V}
    {evs : List (Option (SyncMapConc.Event K V))}
    (h : Exec (sys K V menu n zst) (SyncMapConc.init n zst) evs s) :
    ∃ ls, replay (SyncMapConc.init n zst) ls = some s ∧ ls.map Line.event = evs := by
  obtain ⟨ls, h1, h2, _⟩ := Lemmas.SyncMapTrace.replay_complete_init menu n zst h
  exact ⟨ls, h1, h2⟩

/-- the same with the by-products: the trace's API-level history is the execution's visible history, it has one line per
step, and it invokes menu operations only -/
theorem trace_accept_complete_from (menu : List (Op K V)) (n : Nat) (zst : Bool) {s : State K V}
    {evs : List (Option (SyncMapConc.Event K V))}
    (h : Exec (sys K V menu n zst) (SyncMapConc.init n zst) evs s) :
    ∃ ls, replay (SyncMapConc.init n zst) ls = some s ∧ ls.map Line.event = evs ∧ eventsOf ls = visible evs ∧
      ls.length = evs.length ∧ ∀ t op, Line.inv t op ∈ ls → op ∈ menu :=
  Lemmas.SyncMapTrace.replay_complete_init menu n zst h

/-- **Accepted = execution, exactly.**  For a list of labels `evs` and a state `s`: some line list invoking only menu
operations is accepted by the replay from `init n zst` with final state `s` and line-by-line events `evs`  IFF  the model
`sys K V menu n zst` has an execution from `init n zst` to `s` with labels `evs`.  (→ is `trace_accept_sound`'s core
`replay_exec`; ← is completeness, the menu condition holds because the model only invokes menu operations.)
Covers: the pure replay.  Does not cover: text parsing, set mode, faithfulness of the recording. -/
theorem trace_accept_iff (menu : List (Op K V)) (n : Nat) (zst : Bool) (evs : List (Option (SyncMapConc.Event K V)))
    (s : State K V) :
    (∃ ls, replay (SyncMapConc.init n zst) ls = some s ∧ ls.map Line.event = evs ∧
        ∀ t op, Line.inv t op ∈ ls → op ∈ menu) ↔
      Exec (sys K V menu n zst) (SyncMapConc.init n zst) evs s := by
  constructor
  · rintro ⟨ls, h1, h2, h3⟩
    rw [← h2]
    exact Lemmas.SyncMapTrace.replay_exec menu n zst h3 h1
  · intro h
    obtain ⟨ls, h1, h2, _, _, h3⟩ := Lemmas.SyncMapTrace.replay_complete_init menu n zst h
    exact ⟨ls, h1, h2, h3⟩

/-- the replay is a function: an accepted line list determines the final state (and, by `trace_accept_sound`, the
execution's labels) -/
theorem trace_accept_functional {s₀ s₁ s₂ : State K V} {ls : List (Line K V)}
    (h₁ : replay s₀ ls = some s₁) (h₂ : replay s₀ ls = some s₂) : s₁ = s₂ :=
  Lemmas.SyncMapTrace.replay_functional h₁ h₂

/-- **What the judge computes, completeness.**  The judge starts a `cmap` scenario in `init 0` and appends idle
goroutines when an `inv` line mentions a goroutine id it has not seen (`replayPad`).  Every execution of the model with
`n` goroutines from `init n zst` to `s` is recorded by a line list `ls` (labels exactly `evs`) that the judge ACCEPTS:
`replayPad (init 0 zst) ls = some s''`, and the judge's final state `s''` is the model's final state except that
goroutines that were never invoked are not materialised — `pad s'' n = s` (EXACT form, not just `isSome`); the same `ls`
is accepted by `replay` from `init n zst` with final state `s`.
Covers: the pure `replayPad`, which `Drv/C04conc.lean` folds over the lines of a `cmap` scenario.
Does not cover: text parsing, set-mode composites, verdict printing (driver glue). -/
theorem judge_accept_complete (menu : List (Op K V)) (n : Nat) (zst : Bool) {s : State K V}
    {evs : List (Option (SyncMapConc.Event K V))}
    (h : Exec (sys K V menu n zst) (SyncMapConc.init n zst) evs s) :
    ∃ ls, replay (SyncMapConc.init n zst) ls = some s ∧ ls.map Line.event = evs ∧
      (∀ t op, Line.inv t op ∈ ls → op ∈ menu) ∧
      ∃ s'', replayPad (SyncMapConc.init 0 zst) ls = some s'' ∧ pad s'' n = s ∧ s''.pcs.length ≤ n :=
  Lemmas.SyncMapTrace.replayPad_complete menu n zst h

/-- in particular the judge does not reject -/
theorem judge_accept_complete_isSome (menu : List (Op K V)) (n : Nat) (zst : Bool) {s : State K V}
    {evs : List (Option (SyncMapConc.Event K V))}
    (h : Exec (sys K V menu n zst) (SyncMapConc.init n zst) evs s) :
    ∃ ls, ls.map Line.event = evs ∧ (replayPad (SyncMapConc.init 0 zst) ls).isSome = true := by
  obtain ⟨ls, _, h2, _, s'', h4, _⟩ := judge_accept_complete menu n zst h
  exact ⟨ls, h2, by rw [h4]; rfl⟩

/-! Non-vacuity.  (1) The model does run: the execution recorded by the `demo` trace of `C04trace.lean` exists (by
soundness), so the hypothesis of the completeness theorems is satisfiable with a non-trivial execution, and the theorem
returns an accepted line list for it.  (2) The line list of a concrete execution is accepted with the expected final
state, by both replays, and the judge's state differs from the model's by the never-invoked goroutine only. -/

private def demo : List (Line Int Int) :=
  [.inv 0 (.store 1 5), .step 0 "op:store", .step 0 "Store.readLoad1", .step 0 "lock", .step 0 "Store.readLoad2",
   .step 0 "dirtyLocked.readLoad1", .step 0 "Store.readStore1", .res 0 .done,
   .inv 1 (.load 1), .step 1 "op:load", .step 1 "Load.readLoad1", .step 1 "lock", .step 1 "Load.readLoad2",
   .step 1 "missLocked.readStore1", .step 1 "load.loadPtr1", .res 1 (.val (some 5))]

/-- the final state of the demo execution: key 1 ↦ entry 0 ↦ pointer 0 to 5, promoted into `read`, all idle -/
private def demoFinal (n : Nat) : State Int Int :=
  { sh := { entries := [.val 0 5], readM := [(1, 0)], nextPtr := 1 }, pcs := List.replicate n .idle }

example : replay (SyncMapConc.init 3 false) demo = some (demoFinal 3) := by decide
/-- the judge materialises goroutines 0 and 1 only; padding to 3 gives the model's state -/
example : replayPad (SyncMapConc.init 0 false) demo = some (demoFinal 2) := by decide
example : pad (demoFinal 2) 3 = demoFinal 3 := by decide

/-- the hypothesis of the completeness theorems is satisfiable by a 16-step execution, and the conclusion holds for it -/
example : ∃ evs, Exec (sys Int Int [.store 1 5, .load 1] 3 false) (SyncMapConc.init 3 false) evs (demoFinal 3) ∧
    evs.length = 16 ∧
    ∃ ls, replay (SyncMapConc.init 3 false) ls = some (demoFinal 3) ∧ ls.map Line.event = evs := by
  have hr : replay (SyncMapConc.init 3 false) demo = some (demoFinal 3) := by decide
  have hi : invoked demo = [Op.store (1 : Int) (5 : Int), .load 1] := by decide
  have hm : ∀ t op, Line.inv t op ∈ demo → op ∈ [Op.store (1 : Int) (5 : Int), .load 1] :=
    fun t op h => hi ▸ Lemmas.SyncMapTrace.mem_invoked h
  have hex := Lemmas.SyncMapTrace.replay_exec [.store 1 5, .load 1] 3 false hm hr
  exact ⟨_, hex, by decide, trace_accept_complete _ 3 false hex⟩

/-- a trace with a `range` choice (`iter`): Store, then Range promotes the dirty map and visits key 1 -/
example : replay (SyncMapConc.init 2 false)
    ([.inv 0 (.store 1 5), .step 0 "op:store", .step 0 "Store.readLoad1", .step 0 "lock", .step 0 "Store.readLoad2",
      .step 0 "dirtyLocked.readLoad1", .step 0 "Store.readStore1", .res 0 .done,
      .inv 1 .range, .step 1 "op:range", .step 1 "Range.readLoad1", .step 1 "lock", .step 1 "Range.readLoad2",
      .step 1 "Range.readStore1", .iter 1 1, .step 1 "load.loadPtr1", .res 1 (.pairs [(1, 5)])] : List (Line Int Int))
    = some (demoFinal 2) := by decide

/-- the side condition `PicksNodup` is needed: in an (unreachable) state where a `Range` loop still has two pairs with
the same key, the model can pick the second one but `iter` can only name the first -/
example :
    let s : State Int Int := { sh := {}, pcs := [.rangePick [(1, 0), (1, 1)] []] }
    (none, setPc s 0 s.sh (.rangeLoad [] [] 1 1)) ∈ SyncMapConc.succ [] s ∧
    applyLine s (.iter 0 1) = some (setPc s 0 s.sh (.rangeLoad [] [] 1 0)) := by decide

end C04

#print axioms C04.line_accept_complete
#print axioms C04.trace_accept_complete
#print axioms C04.trace_accept_complete_from
#print axioms C04.trace_accept_iff
#print axioms C04.trace_accept_functional
#print axioms C04.judge_accept_complete
#print axioms C04.judge_accept_complete_isSome
