import TypVerif.Gen.SortShapes
/-
C15, tie 4B — GOLDEN FUNCTION SHAPES (written by tools/mkshapes.py; do not edit by hand).  For every function of the source files this property's model mirrors,
the extractor regenerates on every run: its calls, its stores through selectors / indices / pointers, its conditions and loop headers, its select cases and
its return expressions, in source order.  The theorems below state that these equal the shapes of the tree the model was written against.  They are the STATIC,
all-paths complement of the differential runs: a guard dropped, a fast path or a threshold added, an early return, a changed comparison or a different callee
on ANY path - also one that no generated input happens to take - changes the regenerated list and breaks the `rfl`.  A broken shape theorem is reported like a
broken proof (with a failing input when the search finds one, else `no-failing-input-found`); after a deliberate change of the source the changed functions are
re-read against the model and this file is regenerated.
-/
namespace C15

/-- slices/sort.go: 16 function(s) -/
theorem gen_shapes_sort :
    Gen.SortShapes.funcs.filter (fun f => !(["Reverse"]).contains f.1) =
      [("sortOrdered.Len", ["return len(s)", "call len"]),
       ("sortOrdered.Swap", ["store s[i]", "store s[j]"]),
       ("sortOrdered.Less", ["return s[i] < s[j]"]),
       ("sortLess.Len", ["return len(s.slice)", "call len"]),
       ("sortLess.Swap", ["store s.slice[i]", "store s.slice[j]"]),
       ("sortLess.Less", ["return s.less(s.slice[i], s.slice[j])", "call s.less"]),
       ("Sort", ["call sort.Sort", "call sortOrdered[E]"]),
       ("SortFunc", ["call sort.Sort"]),
       ("SortDesc", ["call sort.Sort", "call sort.Reverse", "call sortOrdered[E]"]),
       ("SortDescFunc", ["call sort.Sort", "call sort.Reverse"]),
       ("SortStableFunc", ["call sort.Stable"]),
       ("SortStableDescFunc", ["call sort.Stable", "call sort.Reverse"]),
       ("Shuffle", ["call rand.Shuffle", "call len", "store slice[i]", "store slice[j]"]),
       ("ShuffleRand", ["call rand.Shuffle", "call len", "store slice[i]", "store slice[j]"]),
       ("BinarySearch", ["return sort.Search(len(slice), (func(i int) bool literal))", "call sort.Search", "call len", "return slice[i] >= value"]),
       ("BinarySearchFunc", ["return sort.Search(len(slice), (func(i int) bool literal))", "call sort.Search", "call len", "return !less(slice[i])", "call less"])] := rfl

end C15
