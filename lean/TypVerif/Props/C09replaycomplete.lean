import TypVerif.Props.C09conc
import TypVerif.Lemmas.KmTraceComplete
/-
C09, COMPLETENESS of the STEP-trace judge "C09conc" (`Drv/C09conc.lean`) — the judge that replays step traces of
`sync2.KeyedMutex` / `KeyedRWMutex` recorded under the controlled scheduler in the composed model
`Model/KeyedMutexConc.lean` (`sys Int menu n`, the system of the `C09.conc_*` theorems).

Soundness, line by line, is `Lemmas/KeyedMutexConcJudge.lean` (`doInv_sound`, `doStep_sound`, `doIter_sound`, `doRes_sound`: an
accepted line is a step of `KeyedMutexConc.stepT`).  Here is the converse:

  every step of the model (in a reachable state) is accepted by the judge's line function for the corresponding line, with
  the model's successor as the judge's new state                                                   (`conc_line_accept_complete`)
  every execution of the model from its initial state is recorded by a line list that the judge — started by the header
  `km <rw>` in the EMPTY state, creating goroutines when an `inv` line first names them — accepts, line for line with the
  answer `ok`, ending (up to goroutines never invoked) in the model's final state                  (`conc_judge_accept_complete`)

So the judge "C09conc" never rejects a faithful recording of a run the composed model allows: a rejection means the recorded
run left the model.  (NOT to be confused with `Props/C09complete.lean`, which is about the other judge, "C09" of `Drv/C09.lean`,
and the EVENT-level model `Model.KeyedMutex.sys`; nothing is duplicated.)

The lines (`Lemmas.KmTrace.KLine`, tokens `KLine.toks`): `inv t <kind> k`; `step t op:<kind>` for the start of the method's
map call (the judge translates it to the map's `op:loadorstore` / `op:delete`); `step t <hook label of map.go>` for every other
atomic action of the map call; `step t lock|rlock|Keyed(RW)Mutex.Try(R)LockKey` for the mutex action at the method's own hook
(`Lemmas.KmTrace.stepLabel`); `iter t k` for a key choice of the map's `range` loop; `res t done|true|false`.

Facts about reachable states that are used (`Lemmas.KmTrace.Good`, from the proved invariant `reachable_inv`, for a key the
finite menu never clears — one exists since keys are `Int`): map component and phase list have the same length; the remaining
pairs of a `range` loop have distinct keys (an `iter` line names the key only); a goroutine inside a method's map call that is
parked at the start of a map operation is at the start of THE map operation of that method.

What this covers: the pure line functions `doInv/doStep/doIter/doRes` and `Drv.C09conc.step` on the token lists of such lines
(`inv`/`step`/`iter`/`res` lines and the header).  What it does NOT cover: the text → token parsing (`Proto`), the `deadlock` /
`steplimit` / `panic:` lines (not steps of the model), tags and rejection messages; and, as for soundness, that the recorded
lines are a faithful record of what the real code did (hooks: `C09.gen_*`).
-/
namespace C09
open TypVerif TypVerif.Conc TypVerif.Model TypVerif.Proto
open TypVerif.Model.KeyedMutexConc (Kind sys)
open TypVerif.Drv.C09conc (St KS doStep doInv doIter doRes resStr pad)
open TypVerif.Lemmas.KmTrace (KLine Good Accepted stepLabel applyK replayK runLines LenLe)

/-- **the facts used hold in every reachable state** of the composed model (any menu, any number of goroutines, every
schedule) -/
theorem conc_good (menu : List (KeyedMutexConc.Op Int)) (n : Nat) {s : KS}
    (hr : Reachable (sys Int menu n) s) : Good s :=
  Lemmas.KmTrace.good_of_reachable hr

/-- **Every step of the composed model is accepted by the judge's line function for the corresponding line.**  The judge's
model state `st.s` is a reachable state of `sys Int menu n`; `(l, s')` is any step of the model from it.  Then
* an invocation step `inv t ⟨kind, k⟩` is accepted by `doInv st t kind k`,
* a response step `res t r` by `doRes st t (resStr r)`,
* an internal step by `doStep st t (stepLabel st.rw st.s t)` (the atomic action goroutine `t` is parked at: in the map call or
  at the method's own hook) or by `doIter st t k` (a key choice of the map's `range` loop),
each with result exactly `s'`.
Covers: the pure line functions.  Does not cover: parsing, `deadlock`/`steplimit`/`panic:` lines (driver glue). -/
theorem conc_line_accept_complete (menu : List (KeyedMutexConc.Op Int)) (n : Nat) (st : St)
    (hr : Reachable (sys Int menu n) st.s) {s' : KS} {l : Option (KeyedMutexConc.Event Int)}
    (h : (l, s') ∈ KeyedMutexConc.succ menu st.s) :
    (∃ t kind k, l = some (.inv t ⟨kind, k⟩) ∧ (⟨kind, k⟩ : KeyedMutexConc.Op Int) ∈ menu ∧
        doInv st t kind k = some s') ∨
    (∃ t r, l = some (.res t r) ∧ doRes st t (resStr r) = some s') ∨
    (l = none ∧ Accepted st s') :=
  Lemmas.KmTrace.line_complete menu (conc_good menu n hr) h

/-- **Every execution of the composed model from a reachable state is accepted by the fold of the judge's line functions**
(`replayK`, all goroutines already created), line for line with exactly the execution's labels, ending in the model's final
state. -/
theorem conc_replay_complete (menu : List (KeyedMutexConc.Op Int)) (n : Nat) (st : St) {s' : KS}
    {evs : List (Option (KeyedMutexConc.Event Int))}
    (hr : Reachable (sys Int menu n) st.s) (h : Exec (sys Int menu n) st.s evs s') :
    ∃ ls : List KLine, replayK st ls = some { st with s := s' } ∧ ls.map KLine.event = evs :=
  Lemmas.KmTrace.replayK_complete menu n h hr st rfl

/-- **THE STEP-TRACE JUDGE IS COMPLETE.**  For every execution of the composed model `sys Int menu n` (any menu, any number `n`
of goroutines) from its initial state to `s` with labels `evs`, and for the header `km rwi` (any judge state `st0` before it):
there is a line list `ls`, one line per step, with line-by-line visible events exactly `evs`, such that the fold of
`Drv.C09conc.step` over the header and the token lists of `ls`
* answers `ok` to every line (no rejection),
* ends not dead, and
* ends in a model state `j` that is the model's final state `s` except that goroutines that were never invoked have not been
  created: `pad j n = s`.
Covers: `Drv.C09conc.step` on header / `inv` / `step` / `iter` / `res` token lines.  Does not cover: text → token parsing,
`deadlock` / `steplimit` / `panic:` lines, tags (driver glue); faithfulness of the recording (hooks). -/
theorem conc_judge_accept_complete (menu : List (KeyedMutexConc.Op Int)) (n : Nat) (st0 : St) (rwi : Int)
    (impl0 impl : String) {s : KS} {evs : List (Option (KeyedMutexConc.Event Int))}
    (h : Exec (sys Int menu n) (KeyedMutexConc.init n) evs s) :
    ∃ ls : List KLine, ls.map KLine.event = evs ∧
      (runLines (Drv.C09conc.step st0 [.w "km", .i rwi] impl0).1 (ls.map (fun l => (l.toks, impl)))).dead = false ∧
      pad (runLines (Drv.C09conc.step st0 [.w "km", .i rwi] impl0).1 (ls.map (fun l => (l.toks, impl)))).s n = s ∧
      ∀ (l1 : List KLine) (l : KLine) (l2 : List KLine), ls = l1 ++ l :: l2 →
        (Drv.C09conc.step (runLines (Drv.C09conc.step st0 [.w "km", .i rwi] impl0).1 (l1.map (fun l => (l.toks, impl))))
          l.toks impl).2.model = "ok" := by
  rw [Lemmas.KmTrace.step_header]
  obtain ⟨ls, j', h1, h2, _, h4⟩ :=
    Lemmas.KmTrace.replayK_follows menu n h Reachable.init { rw := rwi != 0, started := true } {}
      ⟨Nat.zero_le _, Nat.zero_le _⟩ (Lemmas.KmTrace.pad_empty n)
  obtain ⟨h5, h6⟩ := Lemmas.KmTrace.runLines_replayK impl (st := { rw := rwi != 0, started := true }) rfl rfl h1
  refine ⟨ls, h2, ?_, ?_, h6⟩
  · rw [h5]
  · rw [h5]; exact h4

/-! Non-vacuity.  (1) A recorded trace — `t0: LockKey(5)` on the empty keyed mutex, then `t1: TryLockKey(5)` failing — is
accepted by the judge's line functions, label for label (the `op:<kind>` start labels of the scheduler included), from the
EMPTY judge state; with a wrong hook label it is rejected.  (`decide +kernel`: the label translation uses `String.startsWith`,
which the kernel evaluates but `decide`'s default reduction does not; no axiom beyond the usual three is involved.)
(2) The hypothesis of `conc_judge_accept_complete` is satisfiable by a non-trivial execution, and its conclusion then holds. -/

private def demo : List KLine :=
  [.inv 0 .lock 5, .step 0 "op:lock", .step 0 "LoadOrStore.readLoad1", .step 0 "lock", .step 0 "LoadOrStore.readLoad2",
   .step 0 "dirtyLocked.readLoad1", .step 0 "LoadOrStore.readStore1", .step 0 "lock", .res 0 .done,
   .inv 1 .trylock 5, .step 1 "op:trylock", .step 1 "LoadOrStore.readLoad1", .step 1 "lock",
   .step 1 "LoadOrStore.readLoad2", .step 1 "tryLoadOrStore.loadPtr1", .step 1 "missLocked.readStore1",
   .step 1 "KeyedMutex.TryLockKey", .res 1 .ff]

example : (replayK { started := true } demo).isSome = true := by decide +kernel
example : ((replayK { started := true } demo).map (fun st => (st.s.holdsW 0 5, st.s.holdsW 1 5, st.s.phases.length)))
    = some (true, false, 2) := by decide +kernel
/-- a wrong label at the keyed mutex's own hook (`rlock` instead of `lock`) is rejected, the right one accepted -/
example : (replayK { started := true } ((demo.take 7) ++ [.step 0 "rlock"])).isNone = true := by decide +kernel
example : (replayK { started := true } ((demo.take 7) ++ [.step 0 "lock"])).isSome = true := by decide +kernel
/-- the same through `Drv.C09conc.step` on tokens, header first: not dead at the end -/
example : (runLines (Drv.C09conc.step {} [.w "km", .i 0] "").1 (demo.map (fun l => (l.toks, "")))).dead = false := by
  decide +kernel

private def sched (t n : Nat) : List (SyncMapConc.Tid × Nat) := List.replicate n (t, 0)

example : ∃ (evs : List (Option (KeyedMutexConc.Event Int))) (s : KS),
    Exec (sys Int [⟨.lock, 5⟩] 3) (KeyedMutexConc.init 3) evs s ∧ s.holdsW 0 5 = true ∧
    ∃ ls : List KLine, ls.map KLine.event = evs ∧
      (runLines (Drv.C09conc.step {} [.w "km", .i 0] "").1 (ls.map (fun l => (l.toks, "")))).dead = false ∧
      pad (runLines (Drv.C09conc.step {} [.w "km", .i 0] "").1 (ls.map (fun l => (l.toks, "")))).s 3 = s := by
  have hr := Lemmas.KeyedMutexConc.reachable_run [(⟨.lock, 5⟩ : KeyedMutexConc.Op Int)] 3 (sched 0 9)
    (KeyedMutexConc.init 3) .init
  obtain ⟨evs, hex⟩ := Lemmas.Smc.exec_of_reachable hr
  obtain ⟨ls, h1, h2, h3, _⟩ := conc_judge_accept_complete [⟨.lock, 5⟩] 3 {} 0 "" "" hex
  exact ⟨evs, _, hex, by decide, ls, h1, h2, h3⟩

end C09

#print axioms C09.conc_good
#print axioms C09.conc_line_accept_complete
#print axioms C09.conc_replay_complete
#print axioms C09.conc_judge_accept_complete
