import TypVerif.Lemmas.KeyedMutexConcProps
/-
C09 WITHOUT the atomic-map assumption: `sync2/keyedmutex.go` composed with the STEP-LEVEL model of the embedded `sync2.Map`.

The C09 theorems of `Props/C09.lean` are about `Model/KeyedMutex.lean`, whose modelling decision `MapAtomic` replaces the map by
its atomic specification; `Props/C09map.lean` derives the agreement of `LoadOrStore` results for histories of the map alone.
Here the two are COMPOSED in one transition system (`Model/KeyedMutexConc.lean`, `sys K menu n`): the state contains the map's
step-level state (`SyncMapConc.State K MId`: read map, dirty map, entries, `mu`, one program counter per goroutine), one step of a
goroutine inside a keyed-mutex method is one atomic action of `map.go` (exactly the steps of `SyncMapConc.sys`, the system of
`C04.conc_linearizable`), followed — when the map call returns — by the method's own action (`Unlock`/`RUnlock` at once, `Lock`,
`RLock`, `Try*` at their own hook).  It is the composition the judge `C09conc` replays real step traces of `KeyedMutex` /
`KeyedRWMutex` in.  Every theorem is about EVERY reachable state: all schedules, any number `n` of goroutines, any menu of
operations on any keys — with the one proviso `NoClearKey k menu` (`ClearKey` is never applied to the key `k` under consideration;
other keys may be cleared at any time) and the discipline built into the invocation guard `invOk` (goroutines only unlock what
they hold).

Proof (`Lemmas/KeyedMutexConc*.lean`): the composed invariant `Inv k s a` carries the simulation relation `R s.map a` of the C04
proof (re-established at every map step by `Lemmas.Smc.sim_step`) together with an invariant `AbsKey` of the abstract state `a`
(the relaxed atomic map): every result, effective or seen, of a `LoadOrStore(k, _)` is `(w, _)` with `a.obj k = some w`, and
`a.obj k = some w` is stable because no operation of the menu deletes or overwrites `k`.  `R` gives `a.obj k = absOf s.map.sh k`.
-/
namespace C09
open TypVerif TypVerif.Conc TypVerif.Model
open TypVerif.Model.SyncMapConc (Tid Pc picks)
open TypVerif.Model.KeyedMutexConc (Phase Kind Mu MId sys run stepT enabled isLockPc putMu)
open TypVerif.Lemmas.Smc (absOf)
open TypVerif.Lemmas.KeyedMutexConc

set_option linter.unusedSectionVars false

variable {K : Type} [DecidableEq K]

/-- schedules for the examples: goroutine `t` takes its first available step `n` times -/
private def sched (t n : Nat) : List (Tid × Nat) := List.replicate n (t, 0)

/-- **Agreement, all schedules.**  If `ClearKey` is never applied to `k`: in every reachable state of the composed system every
goroutine that has obtained a mutex for `k` — it is parked at its `Lock`/`RLock`/`Try*` hook with mutex `m` for `k`, or holds `k`
(for writing or reading) through `m` — has THE mutex the step-level map currently holds for `k`: `absOf s.map.sh k = some m`
(`absOf`: the abstraction function of the C04 proof — the value the read/dirty/expunged state stands for).  Hence any two such
goroutines have the same mutex — also at the simultaneous first use of a never-seen key. -/
theorem conc_agree (k : K) (menu : List (KeyedMutexConc.Op K)) (hmenu : NoClearKey k menu) (n : Nat) :
    ∀ s, Reachable (sys K menu n) s →
      (∀ t m, s.obtained t k m → absOf s.map.sh k = some m) ∧
      (∀ t₁ t₂ m₁ m₂, s.obtained t₁ k m₁ → s.obtained t₂ k m₂ → m₁ = m₂) := by
  intro s hr
  obtain ⟨a, h⟩ := reachable_inv hmenu n hr
  refine ⟨fun t m ho => h.agree ho, fun t₁ t₂ m₁ m₂ h1 h2 => ?_⟩
  have e1 := h.agree h1
  rw [h.agree h2] at e1
  exact (Option.some.inj e1).symm

/-- non-vacuity: the simultaneous first use of key 5 by two goroutines — goroutine 0 runs `LockKey(5)` up to its hook, then
goroutine 1 does; both are parked with mutex 1 (goroutine 1 offered mutex 2, which lost) -/
example : ∃ s, Reachable (sys Nat [⟨.lock, 5⟩] 2) s ∧
    s.phase 0 = .atHook .lock 5 1 ∧ s.phase 1 = .atHook .lock 5 1 ∧ s.next = 3 :=
  ⟨run [⟨.lock, 5⟩] (sched 0 7 ++ sched 1 7) (KeyedMutexConc.init 2), reachable_run _ _ _ _ .init, by decide⟩

/-- distinct keys never share a mutex (so a mutex obtained for `k₂` is not the one the map holds for `k₁`) -/
theorem conc_agree_distinct (k : K) (menu : List (KeyedMutexConc.Op K)) (hmenu : NoClearKey k menu) (n : Nat) :
    ∀ s, Reachable (sys K menu n) s → ∀ k₁ k₂ m, absOf s.map.sh k₁ = some m → absOf s.map.sh k₂ = some m → k₁ = k₂ := by
  intro s hr k₁ k₂ m h1 h2
  obtain ⟨a, h⟩ := reachable_inv hmenu n hr
  exact h.distinct h1 h2

/-- **Mutual exclusion per KEY, all schedules** (readers xor one writer).  If `ClearKey` is never applied to `k`, in every
reachable state: at most one goroutine holds `k` for writing (and it holds it once); while a goroutine holds `k` for writing
nobody holds `k` for reading; and the ghost "holds" is faithful to the real mutex: `t` holds `k` for writing / reading iff `t` is
the writer / a reader of the mutex the map holds for `k`. -/
theorem conc_mutex (k : K) (menu : List (KeyedMutexConc.Op K)) (hmenu : NoClearKey k menu) (n : Nat) :
    ∀ s, Reachable (sys K menu n) s →
      (∀ t₁ t₂, s.holdsW t₁ k = true → s.holdsW t₂ k = true → t₁ = t₂) ∧
      (∀ t₁ t₂, s.holdsW t₁ k = true → s.holdsR t₂ k = true → False) ∧
      (∀ t m, s.wh.count (t, k, m) ≤ 1) ∧
      (∀ m, absOf s.map.sh k = some m → ∀ t,
        (s.holdsW t k = true ↔ (s.mu m).writer = some t) ∧ (s.holdsR t k = true ↔ t ∈ (s.mu m).readers)) := by
  intro s hr
  obtain ⟨a, h⟩ := reachable_inv hmenu n hr
  refine ⟨?_, ?_, h.wcount_le, fun m hm t => ⟨h.holdsW_iff hm, h.holdsR_iff hm⟩⟩
  · intro t₁ t₂ h1 h2
    obtain ⟨m1, h1⟩ := holdsW_iff.mp h1
    obtain ⟨m2, h2⟩ := holdsW_iff.mp h2
    exact (h.mutex h1 h2).1
  · intro t₁ t₂ h1 h2
    obtain ⟨m1, h1⟩ := holdsW_iff.mp h1
    obtain ⟨m2, h2⟩ := holdsR_iff.mp h2
    exact h.rw_excl h1 h2

/-- non-vacuity: a goroutine does get to hold a key; two readers hold a key together -/
example : ∃ s, Reachable (sys Nat [⟨.lock, 5⟩] 2) s ∧ s.holdsW 0 5 = true ∧ s.mu 1 = { writer := some 0 } :=
  ⟨run [⟨.lock, 5⟩] (sched 0 9) (KeyedMutexConc.init 2), reachable_run _ _ _ _ .init, by decide⟩
example : ∃ s, Reachable (sys Nat [⟨.rlock, 5⟩] 2) s ∧ s.holdsR 0 5 = true ∧ s.holdsR 1 5 = true ∧ (s.mu 1).readers = [1, 0] :=
  ⟨run [⟨.rlock, 5⟩] (sched 0 9 ++ sched 1 9) (KeyedMutexConc.init 2), reachable_run _ _ _ _ .init, by decide⟩

/-- **Unlock releases what Lock acquired, all schedules.**  If `ClearKey` is never applied to `k`: (1) no `Unlock`/`RUnlock` on
`k` ever finds a mutex its caller does not hold (`k ∉ s.faults` — the real code never hits "sync: unlock of unlocked mutex" when
goroutines only unlock what they hold); (2) in the step in which `UnlockKey(k)` of goroutine `t` completes (its `LoadOrStore`
returns and `m.Unlock()` runs), the mutex `m` it releases is the one `t`'s `LockKey(k)`/`TryLockKey(k)` acquired (`(t, k, m) ∈ s.wh`),
`t` is its writer, it is the map's mutex for `k`, and the step releases exactly that; (3) the same for `RUnlockKey(k)`. -/
theorem conc_unlock_same (k : K) (menu : List (KeyedMutexConc.Op K)) (hmenu : NoClearKey k menu) (n : Nat) :
    ∀ s, Reachable (sys K menu n) s →
      k ∉ s.faults ∧
      (∀ t l s', t < s.phases.length → (l, s') ∈ stepT menu s t → s.phase t = .inMap .unlock k → s'.phase t = .ret .done →
        ∃ m, (t, k, m) ∈ s.wh ∧ (s.mu m).writer = some t ∧ absOf s'.map.sh k = some m ∧
          s'.wh = s.wh.erase (t, k, m) ∧ s'.mus = putMu s.mus m { s.mu m with writer := none } ∧
          s'.rh = s.rh ∧ s'.faults = s.faults) ∧
      (∀ t l s', t < s.phases.length → (l, s') ∈ stepT menu s t → s.phase t = .inMap .runlock k → s'.phase t = .ret .done →
        ∃ m, (t, k, m) ∈ s.rh ∧ t ∈ (s.mu m).readers ∧ absOf s'.map.sh k = some m ∧
          s'.rh = s.rh.erase (t, k, m) ∧ s'.mus = putMu s.mus m { s.mu m with readers := (s.mu m).readers.erase t } ∧
          s'.wh = s.wh ∧ s'.faults = s.faults) := by
  intro s hr
  obtain ⟨a, h⟩ := reachable_inv hmenu n hr
  exact ⟨h.mu.nofault, fun t l s' ht hs hp hd => unlock_step h ht hp hs hd,
    fun t l s' ht hs hp hd => runlock_step h ht hp hs hd⟩

/-- non-vacuity: goroutine 0 has locked key 5 and is inside `UnlockKey(5)`, one step before its map call returns; the next step
releases mutex 1 -/
example : ∃ s s', Reachable (sys Nat [⟨.unlock, 5⟩, ⟨.lock, 5⟩] 2) s ∧ s.phase 0 = .inMap .unlock 5 ∧ s.wh = [(0, 5, 1)] ∧
    (none, s') ∈ stepT [⟨.unlock, 5⟩, ⟨.lock, 5⟩] s 0 ∧ s'.phase 0 = .ret .done ∧ s'.wh = [] ∧ s'.mu 1 = {} :=
  ⟨run [⟨.unlock, 5⟩, ⟨.lock, 5⟩] (sched 0 15) (KeyedMutexConc.init 2),
   run [⟨.unlock, 5⟩, ⟨.lock, 5⟩] (sched 0 16) (KeyedMutexConc.init 2), reachable_run _ _ _ _ .init, by decide⟩

/-- **TryLockKey / TryRLockKey, all schedules.**  If `ClearKey` is never applied to `k`, a goroutine `t` parked at the hook of
`TryLockKey(k)` / `TryRLockKey(k)` with mutex `m`: `m` is the map's mutex for `k`; the step is always enabled (never blocks), is
internal and deterministic; it returns `true` iff the mutex is free (`TryLock`) / has no writer (`TryRLock`), and then `t` holds
`k` from that very step on; it returns `false` — changing nothing — only if the key is held incompatibly at that step: by some
goroutine for writing or reading (`TryLock`), for writing (`TryRLock`); and conversely it does return `false` whenever it is. -/
theorem conc_try (k : K) (menu : List (KeyedMutexConc.Op K)) (hmenu : NoClearKey k menu) (n : Nat) :
    ∀ s, Reachable (sys K menu n) s → ∀ t m, t < s.phases.length →
      (s.phase t = .atHook .trylock k m →
        absOf s.map.sh k = some m ∧
        (((∃ u, s.holdsW u k = true) ∨ (∃ u, s.holdsR u k = true)) ↔ ¬ (s.mu m).free) ∧
        ∃ s', stepT menu s t = [(none, s')] ∧
          ((s.mu m).free → s'.phase t = .ret .tt ∧ s'.holdsW t k = true ∧ (s'.mu m).writer = some t) ∧
          (¬ (s.mu m).free → s'.phase t = .ret .ff ∧ s' = s.setPhase t (.ret .ff))) ∧
      (s.phase t = .atHook .tryrlock k m →
        absOf s.map.sh k = some m ∧
        ((∃ u, s.holdsW u k = true) ↔ ¬ (s.mu m).readable) ∧
        ∃ s', stepT menu s t = [(none, s')] ∧
          ((s.mu m).readable → s'.phase t = .ret .tt ∧ s'.holdsR t k = true ∧ t ∈ (s'.mu m).readers) ∧
          (¬ (s.mu m).readable → s'.phase t = .ret .ff ∧ s' = s.setPhase t (.ret .ff))) := by
  intro s hr t m ht
  obtain ⟨a, h⟩ := reachable_inv hmenu n hr
  refine ⟨fun hp => ?_, fun hp => ?_⟩
  · have hm := h.agree (t := t) (m := m) (Or.inl ⟨_, hp⟩)
    refine ⟨hm, h.held_iff_not_free hm, ?_⟩
    unfold KeyedMutexConc.stepT
    simp only [hp, KeyedMutexConc.hookStep]
    by_cases hf : (s.mu m).free
    · refine ⟨_, by rw [if_pos hf], fun _ => ⟨phase_acqW s t k m .tt ht, holdsW_acqW s t k m .tt, mu_acqW s t k m .tt⟩,
        fun hc => absurd hf hc⟩
    · refine ⟨_, by rw [if_neg hf], fun hc => absurd hc hf, fun _ => ⟨phase_of_set_self rfl ht, rfl⟩⟩
  · have hm := h.agree (t := t) (m := m) (Or.inl ⟨_, hp⟩)
    refine ⟨hm, h.wheld_iff_not_readable hm, ?_⟩
    unfold KeyedMutexConc.stepT
    simp only [hp, KeyedMutexConc.hookStep]
    by_cases hf : (s.mu m).readable
    · refine ⟨_, by rw [if_pos hf], fun _ => ⟨phase_acqR s t k m .tt ht, holdsR_acqR s t k m .tt, mu_acqR s t k m .tt⟩,
        fun hc => absurd hf hc⟩
    · refine ⟨_, by rw [if_neg hf], fun hc => absurd hc hf, fun _ => ⟨phase_of_set_self rfl ht, rfl⟩⟩

/-- non-vacuity: goroutine 1 at its TryLock of key 5, which goroutine 0 holds (it will return false); goroutine 1 at its TryLock
of the fresh key 6 while goroutine 0 holds key 5 (it will return true) -/
example : ∃ s, Reachable (sys Nat [⟨.lock, 5⟩, ⟨.trylock, 5⟩, ⟨.trylock, 6⟩] 2) s ∧
    s.phase 1 = .atHook .trylock 5 1 ∧ s.holdsW 0 5 = true ∧ ¬ (s.mu 1).free :=
  ⟨run [⟨.lock, 5⟩, ⟨.trylock, 5⟩, ⟨.trylock, 6⟩] (sched 0 9 ++ [(1, 1)] ++ sched 1 6) (KeyedMutexConc.init 2),
   reachable_run _ _ _ _ .init, by decide⟩
example : ∃ s, Reachable (sys Nat [⟨.lock, 5⟩, ⟨.trylock, 5⟩, ⟨.trylock, 6⟩] 2) s ∧
    s.phase 1 = .atHook .trylock 6 2 ∧ s.holdsW 0 5 = true ∧ (s.mu 2).free :=
  ⟨run [⟨.lock, 5⟩, ⟨.trylock, 5⟩, ⟨.trylock, 6⟩] (sched 0 9 ++ [(1, 2)] ++ sched 1 4) (KeyedMutexConc.init 2),
   reachable_run _ _ _ _ .init, by decide⟩

/-- **Independence of keys, all schedules.**  (1) Inside its map call (any key) the enabledness of a goroutine's step depends only
on its program point in `map.go` and on the map's internal mutex `mu` — no keyed mutex matters; (1') parked at `m.mu.Lock()` it is
enabled iff `mu` is free.  (2) At its hook with mutex `m` for key `k₂`, the enabledness depends only on the automaton of `m`
(`hookEnabled`); and `m` is not the mutex the map holds for any other key `k₁` (that `ClearKey` is never applied to): two reachable
states that agree on goroutine `t`'s phase and on every mutex except the one of `k₁` — whoever holds or awaits `k₁` in either —
enable `t`'s step alike.  (3) Returning is always enabled. -/
theorem conc_independent (k₁ : K) (menu : List (KeyedMutexConc.Op K)) (hmenu : NoClearKey k₁ menu) (n : Nat) :
    (∀ s₁ s₂ : KeyedMutexConc.State K, ∀ t kind k₂, s₁.phase t = .inMap kind k₂ → s₂.phase t = .inMap kind k₂ →
      s₁.map.pc t = s₂.map.pc t → s₁.map.sh.mu = s₂.map.sh.mu → (enabled menu s₁ t ↔ enabled menu s₂ t)) ∧
    (∀ s : KeyedMutexConc.State K, ∀ t kind k₂, s.phase t = .inMap kind k₂ → isLockPc (s.map.pc t) = true →
      (enabled menu s t ↔ s.map.sh.mu = none)) ∧
    (∀ s₁ s₂, Reachable (sys K menu n) s₁ → Reachable (sys K menu n) s₂ → ∀ t kind k₂ m, k₂ ≠ k₁ →
      s₁.phase t = .atHook kind k₂ m → s₂.phase t = .atHook kind k₂ m →
      (∀ m', absOf s₁.map.sh k₁ ≠ some m' → s₁.mu m' = s₂.mu m') →
      (enabled menu s₁ t ↔ enabled menu s₂ t) ∧ (enabled menu s₁ t ↔ KeyedMutexConc.hookEnabled kind (s₁.mu m))) ∧
    (∀ s : KeyedMutexConc.State K, ∀ t r, s.phase t = .ret r → enabled menu s t) := by
  refine ⟨?_, ?_, ?_, fun s t r hp => enabled_ret hp⟩
  · intro s₁ s₂ t kind k₂ hp₁ hp₂ hpc hmu
    rw [enabled_inMap hp₁, enabled_inMap hp₂, hpc, hmu]
  · intro s t kind k₂ hp hl
    rw [enabled_inMap hp]
    cases hpc : s.map.pc t <;> rw [hpc] at hl <;> cases hmu : s.map.sh.mu <;> simp_all [noExec, isLockPc, picks]
  · intro s₁ s₂ hr₁ _ t kind k₂ m hne hp₁ hp₂ hag
    obtain ⟨a, h⟩ := reachable_inv hmenu n hr₁
    have hm : s₁.mu m = s₂.mu m := hag m (h.hook_ne hp₁ hne)
    rw [enabled_atHook hp₁, enabled_atHook hp₂, hm]
    exact ⟨Iff.rfl, Iff.rfl⟩

/-- non-vacuity: goroutine 1 parked at its `Lock` of key 6 (mutex 2), once with key 5 held by goroutine 0 and once after goroutine
0 has released it; the two states differ in the mutex of key 5 only -/
example : ∃ s₁ s₂, Reachable (sys Nat [⟨.lock, 5⟩, ⟨.lock, 6⟩, ⟨.unlock, 5⟩] 2) s₁ ∧
    Reachable (sys Nat [⟨.lock, 5⟩, ⟨.lock, 6⟩, ⟨.unlock, 5⟩] 2) s₂ ∧
    s₁.phase 1 = .atHook .lock 6 2 ∧ s₂.phase 1 = .atHook .lock 6 2 ∧ s₁.holdsW 0 5 = true ∧ s₂.holdsW 0 5 = false ∧
    s₁.mu 1 ≠ s₂.mu 1 ∧ s₁.mu 2 = s₂.mu 2 :=
  ⟨run [⟨.lock, 5⟩, ⟨.lock, 6⟩, ⟨.unlock, 5⟩] (sched 0 9 ++ [(1, 1)] ++ sched 1 4) (KeyedMutexConc.init 2),
   run [⟨.lock, 5⟩, ⟨.lock, 6⟩, ⟨.unlock, 5⟩] (sched 0 9 ++ [(1, 1)] ++ sched 1 4 ++ [(0, 2)] ++ sched 0 7) (KeyedMutexConc.init 2),
   reachable_run _ _ _ _ .init, reachable_run _ _ _ _ .init, by decide⟩

/-- the map's internal mutex `mu` is the only thing a goroutine can wait for inside the map call: a goroutine parked at
`m.mu.Lock()` is enabled as soon as `mu` is free -/
example (menu : List (KeyedMutexConc.Op K)) (s : KeyedMutexConc.State K) (t : Tid) (kind : Kind) (k₂ : K) (v : MId)
    (hp : s.phase t = .inMap kind k₂) (hpc : s.map.pc t = .losLock k₂ v) : enabled menu s t ↔ s.map.sh.mu = none := by
  rw [enabled_inMap hp, hpc]
  cases s.map.sh.mu <;> simp [noExec, isLockPc, picks]

/-- **The map call of a keyed-mutex method returns the key's mutex, all schedules.**  In the step in which the `LoadOrStore` of a
`LockKey`/`TryLockKey`/`UnlockKey`/… on any key `k'` is about to return (`retOf`), its result is a pair `(w, _)` — so the fall-through
of `KeyedMutexConc.finish` for other results is never taken by these methods (for `ClearKey` both branches of `finish` coincide) —
`w` was offered for `k'`, and for `k' = k` it is the map's value for `k` after the step. -/
theorem conc_map_result (k : K) (menu : List (KeyedMutexConc.Op K)) (hmenu : NoClearKey k menu) (n : Nat) :
    ∀ s, Reachable (sys K menu n) s → ∀ t kind k' ms' r, t < s.phases.length → s.phase t = .inMap kind k' → kind ≠ .clear →
      ms' ∈ KeyedMutexConc.mapSteps s.map t → KeyedMutexConc.retOf (ms'.pc t) = some r →
      ∃ w b, r = .pair w b ∧ (w, k') ∈ s.offers ∧ (k' = k → absOf ms'.sh k = some w) := by
  intro s hr t kind k' ms' r ht hp hk hms hret
  obtain ⟨a, h⟩ := reachable_inv hmenu n hr
  exact ret_step h ht hp hms hret hk

/-- **The proviso cannot be dropped**: if `ClearKey(5)` is in the menu, two goroutines hold key 5 for writing at once (goroutine 0
locks 5 through mutex 1, goroutine 1 clears 5 and locks 5 through the fresh mutex 3). -/
theorem conc_clear_proviso_needed :
    ∃ s, Reachable (sys Nat [⟨.lock, 5⟩, ⟨.clear, 5⟩] 2) s ∧ s.holdsW 0 5 = true ∧ s.holdsW 1 5 = true ∧
      s.wh = [(1, 5, 3), (0, 5, 1)] :=
  ⟨run [⟨.lock, 5⟩, ⟨.clear, 5⟩] (sched 0 9 ++ [(1, 1)] ++ sched 1 17) (KeyedMutexConc.init 2),
   reachable_run _ _ _ _ .init, by decide⟩

end C09

#print axioms C09.conc_map_result
#print axioms C09.conc_clear_proviso_needed
#print axioms C09.conc_agree
#print axioms C09.conc_agree_distinct
#print axioms C09.conc_mutex
#print axioms C09.conc_unlock_same
#print axioms C09.conc_try
#print axioms C09.conc_independent
