import TypVerif.Gen.AvlShapes
import TypVerif.Gen.MathShapes
import TypVerif.Gen.UtilShapes
/-
C01, tie 4B — GOLDEN FUNCTION SHAPES (written by tools/mkshapes.py; do not edit by hand).  For every function of the source files this property's model mirrors,
the extractor regenerates on every run: its calls, its stores through selectors / indices / pointers, its conditions and loop headers, its select cases and
its return expressions, in source order.  The theorems below state that these equal the shapes of the tree the model was written against.  They are the STATIC,
all-paths complement of the differential runs: a guard dropped, a fast path or a threshold added, an early return, a changed comparison or a different callee
on ANY path - also one that no generated input happens to take - changes the regenerated list and breaks the `rfl`.  A broken shape theorem is reported like a
broken proof (with a failing input when the search finds one, else `no-failing-input-found`); after a deliberate change of the source the changed functions are
re-read against the model and this file is regenerated.
-/
namespace C01

/-- avl/avl.go (Model/Avl.lean mirrors it function by function): 34 function(s) -/
theorem gen_shapes_avl :
    Gen.AvlShapes.funcs =
      [("New", ["return Tree[T]{…}"]),
       ("NewOrdered", ["return New(typ.Compare[T])", "call New"]),
       ("Tree.String", ["return fmt.Sprint(n.SliceInOrder())", "call fmt.Sprint", "call n.SliceInOrder"]),
       ("Tree.Clone", ["call n.WalkPreOrder", "return clone"]),
       ("Tree.Len", ["return n.count"]),
       ("Tree.Contains", ["if n.root == nil", "return false", "return n.root.contains(value, n.compare)", "call n.root.contains"]),
       ("Tree.Add", ["if n.root == nil", "store n.root", "store n.root", "call n.root.add", "store n.count"]),
       ("Tree.Remove", ["if n.root == nil", "return false", "call n.root.remove", "store n.root", "if ok", "store n.count", "return ok"]),
       ("Tree.Clear", ["store n.root", "store n.count"]),
       ("Tree.WalkPreOrder", ["if n.root == nil", "return ", "call n.root.walkPreOrder"]),
       ("Tree.WalkInOrder", ["if n.root == nil", "return ", "call n.root.walkInOrder"]),
       ("Tree.WalkPostOrder", ["if n.root == nil", "return ", "call n.root.walkPostOrder"]),
       ("Tree.SlicePreOrder", ["return n.slice(n.WalkPreOrder)", "call n.slice"]),
       ("Tree.SliceInOrder", ["return n.slice(n.WalkInOrder)", "call n.slice"]),
       ("Tree.SlicePostOrder", ["return n.slice(n.WalkPostOrder)", "call n.slice"]),
       ("Tree.slice", ["call make", "call f", "call append", "return slice"]),
       ("node.String", ["return fmt.Sprint(n.value)", "call fmt.Sprint"]),
       ("node.walkPreOrder", ["call f", "if n.left != nil", "call n.left.walkPreOrder", "if n.right != nil", "call n.right.walkPreOrder"]),
       ("node.walkInOrder", ["if n.left != nil", "call n.left.walkInOrder", "call f", "if n.right != nil", "call n.right.walkInOrder"]),
       ("node.walkPostOrder", ["if n.left != nil", "call n.left.walkPostOrder", "if n.right != nil", "call n.right.walkPostOrder", "call f"]),
       ("node.contains", ["return n.find(value, compare) != nil", "call n.find"]),
       ("node.find", ["for", "return current", "call compare", "return nil"]),
       ("node.remove", ["if n.value == value", "return nil, true", "return n.right, true", "return n.left, true", "call n.right.popLeftMost", "store leftMost.left", "store leftMost.right", "store leftMost.height", "call leftMost.calcHeight", "return leftMost.rebalance(), true", "call leftMost.rebalance", "if n.left != nil && compare(value, n.value) < 0", "call compare", "if newNode, ok := n.left.remove(value, compare); ok", "call n.left.remove", "store n.left", "store n.height", "call n.calcHeight", "return n.rebalance(), true", "call n.rebalance", "if n.right != nil", "if newNode, ok := n.right.remove(value, compare); ok", "call n.right.remove", "store n.right", "store n.height", "call n.calcHeight", "return n.rebalance(), true", "call n.rebalance", "return n, false"]),
       ("node.popLeftMost", ["if n.left == nil", "return n.right, n", "call n.left.popLeftMost", "store n.left", "store n.height", "call n.calcHeight", "return n.rebalance(), popped", "call n.rebalance"]),
       ("node.add", ["if compare(value, n.value) < 0", "call compare", "if n.left == nil", "store n.left", "store n.left", "call n.left.add", "if n.right == nil", "store n.right", "store n.right", "call n.right.add", "store n.height", "call n.calcHeight", "return n.rebalance()", "call n.rebalance"]),
       ("node.rebalance", ["if n.balance() == balanceRightHeavy", "call n.balance", "if n.right != nil && n.right.leftHeight() > n.right.rightHeight()", "call n.right.leftHeight", "call n.right.rightHeight", "return n.rotateLeftRight()", "call n.rotateLeftRight", "return n.rotateLeft()", "call n.rotateLeft", "if n.balance() == balanceLeftHeavy", "call n.balance", "if n.left != nil && n.left.rightHeight() > n.left.leftHeight()", "call n.left.rightHeight", "call n.left.leftHeight", "return n.rotateRightLeft()", "call n.rotateRightLeft", "return n.rotateRight()", "call n.rotateRight", "return n"]),
       ("node.balance", ["call n.leftHeight", "call n.rightHeight", "if leftHeight - rightHeight > 1", "return balanceLeftHeavy", "if rightHeight - leftHeight > 1", "return balanceRightHeavy", "return balanceBalanced"]),
       ("node.leftHeight", ["if n.left == nil", "return -1", "return n.left.height"]),
       ("node.rightHeight", ["if n.right == nil", "return -1", "return n.right.height"]),
       ("node.calcHeight", ["return 0", "return 1 + n.rightHeight()", "call n.rightHeight", "return 1 + n.leftHeight()", "call n.leftHeight", "return 1 + typ.Max(n.leftHeight(), n.rightHeight())", "call typ.Max", "call n.leftHeight", "call n.rightHeight"]),
       ("node.rotateLeft", ["store prevRoot.right", "if prevRoot.right != nil", "store prevRoot.right.height", "call prevRoot.right.calcHeight", "store prevRoot.height", "call prevRoot.calcHeight", "store newRoot.left", "store newRoot.height", "call newRoot.calcHeight", "return newRoot"]),
       ("node.rotateRight", ["store prevRoot.left", "if prevRoot.left != nil", "store prevRoot.left.height", "call prevRoot.left.calcHeight", "store prevRoot.height", "call prevRoot.calcHeight", "store newRoot.right", "store newRoot.height", "call newRoot.calcHeight", "return newRoot"]),
       ("node.rotateLeftRight", ["store n.right", "call n.right.rotateRight", "return n.rotateLeft()", "call n.rotateLeft"]),
       ("node.rotateRightLeft", ["store n.left", "call n.left.rotateLeft", "return n.rotateRight()", "call n.rotateRight"])] := rfl

/-- util.go, Compare (the comparator of avl.NewOrdered) - a DEPENDENCY of the tree: 1 function(s) -/
theorem gen_shapes_dep_compare :
    Gen.UtilShapes.funcs.filter (fun f => (["Compare"]).contains f.1) =
      [("Compare", ["if a > b", "return 1", "if a < b", "return -1", "return 0"])] := rfl

/-- math.go, Max (used by calcHeight) - a DEPENDENCY of the tree: 1 function(s) -/
theorem gen_shapes_dep_max :
    Gen.MathShapes.funcs.filter (fun f => (["Max"]).contains f.1) =
      [("Max", ["call len", "call panic", "return v[0]", "range v[1:]", "if v > max", "return max"])] := rfl

end C01
