import TypVerif.Lemmas.ObjComplete
import TypVerif.Lemmas.ObjCompleteC18
import TypVerif.Props.C18accept
/-
C18 — THE ATOMIC-OBJECT JUDGES DECIDE LINEARIZABILITY EXACTLY (completeness of the acceptance of `Drv/C18.lean`; the soundness
half is `Props/C18accept.lean`).

1. `C18.AtomicObj.exec_of_linearizable`: every linearizable history — in the sense of the project's own definition
   `Model.AtomicObj.Linearizable` — is the visible trace of an execution of `AtomicObj.sys S menu N` from its initial state:
   the converse of `C18.AtomicObj.linearizable`.  No well-formedness side condition is needed, `Linearizable` contains it (the
   clause `∀ t, (runThread t log).isSome`: every goroutine alternates `inv · lin · res` with matching operation and result).
   `N` = 1 + the largest goroutine id, `menu` = the invoked operations.  Hence `C18.AtomicObj.linearizable_iff_exec`.
2. `C18.fold_stepObj_complete`: the state-set fold of the judges (`stepObj`: pad to `n`, `Conc.stepEvent` with closure fuel,
   erase the ghost log, dedup; `n` from `nf`) over the visible trace of any execution of any `AtomicObj.sys S menu N` whose
   goroutine ids are `< fuel` is non-empty — the only internal steps are linearization steps, each consumes a pending
   goroutine, so at most `n ≤ fuel` of them fit between two visible events and the fuel-bounded closure loses nothing.
   `C18.fold_stepObj_iff`, `C18.fold_stepObj_iff_linearizable`.
3. The real judge `Drv.C18.step`, folded over lines (`runLines`) after the header, on histories with goroutine ids `< 16`
   (`closureFuel`):
     `C18.judge_accept_complete`           linearizable ⇒ not flagged / not rejected               (mode `av`)
     `C18.judge_decides_linearizability`   `violated = none ↔ Linearizable Spec.Register.spec tr`,
                                           `rejected = false ↔ Linearizable AtomicValue.spec tr`    (mode `av`)
     `C18.judge_accept_complete_pool`      linearizable w.r.t. the bag ⇒ never `violated = some "not-linearizable"`
     `C18.judge_pool_verdict`              `violated = none` ⇒ linearizable; `not-linearizable` ⇒ not linearizable  (mode `pool`)
   (in mode `pool` the flag `violated` is shared with the holding-discipline predicates, so `violated = none` is not
   equivalent to linearizability there).

NOT covered: the wrapper-level pool model component `poolM` (`Pool.sys`, flag `rejected` in mode `pool`); histories with a
goroutine id `≥ 16` (the judge is then only sound).
-/
namespace C18
open TypVerif TypVerif.Conc TypVerif.Model TypVerif.Proto TypVerif.Drv.C18
open TypVerif.Lemmas.ObjAccept (foldObj stepObjF)
open TypVerif.Lemmas.ObjAcceptC18 (runLines nextN)

/-! ## 1. the converse of `C18.AtomicObj.linearizable` -/

/-- every linearizable history is the visible trace of an execution of the atomic-object system -/
theorem AtomicObj.exec_of_linearizable (S : AtomicObj.Spec) [DecidableEq S.Op] [DecidableEq S.Res]
    {tr : List (AtomicObj.Event S.Op S.Res)} (h : AtomicObj.Linearizable S tr) :
    ∃ (N : Nat) (menu : List S.Op) (ls : List (Option (AtomicObj.Event S.Op S.Res)))
        (s : AtomicObj.State S.σ S.Op S.Res),
      Exec (AtomicObj.sys S menu N) (AtomicObj.sys S menu N).init ls s ∧ visible ls = tr :=
  Lemmas.ObjComplete.exec_of_linearizable S h

/-- linearizable = being a history of the atomic-object system (some number of goroutines, some finite menu) -/
theorem AtomicObj.linearizable_iff_exec (S : AtomicObj.Spec) [DecidableEq S.Op] [DecidableEq S.Res]
    (tr : List (AtomicObj.Event S.Op S.Res)) :
    AtomicObj.Linearizable S tr ↔
      ∃ (N : Nat) (menu : List S.Op) (ls : List (Option (AtomicObj.Event S.Op S.Res)))
          (s : AtomicObj.State S.σ S.Op S.Res),
        Exec (AtomicObj.sys S menu N) (AtomicObj.sys S menu N).init ls s ∧ visible ls = tr :=
  Lemmas.ObjComplete.linearizable_iff_exec S tr

/-! ## 2. the state-set fold is complete for bounded concurrency -/

/-- between two visible events at most as many internal steps are possible as there are pending goroutines -/
theorem AtomicObj.tau_bound (S : AtomicObj.Spec) (menu : List S.Op) (n k : Nat) (x x' : AtomicObj.State S.σ S.Op S.Res)
    (h : Lemmas.OnceRed.TauN (AtomicObj.sys S menu n) k x x') :
    Lemmas.OnceRed.TauN (AtomicObj.sys S menu n) (Lemmas.ObjComplete.pend x.pcs) x x' ∧
      Lemmas.ObjComplete.pend x.pcs ≤ x.pcs.length :=
  ⟨Lemmas.ObjComplete.tauN_bound S menu n h, Lemmas.ObjComplete.pend_le_length _⟩

/-- the fold of `stepObjF S fuel` (`Drv.C18.stepObj` = fuel 16, `Drv.ObjLin.stepObj` = fuel 24) over the visible trace of
an execution of `AtomicObj.sys S menu N` (any `N`, any `menu`) whose goroutine ids are `< fuel` is non-empty; `nf` is the
judge's rule for the number of goroutines (never decreasing, `> t` at an invocation of goroutine `t`, `≤ fuel` on ids
`< fuel`) -/
theorem fold_stepObj_complete (S : AtomicObj.Spec) [DecidableEq S.σ] [DecidableEq S.Op] [DecidableEq S.Res]
    (fuel : Nat) (nf : Nat → AtomicObj.Event S.Op S.Res → Nat)
    (hmono : ∀ n e, n ≤ nf n e) (hinv : ∀ n t op, t < nf n (.inv t op))
    (hbound : ∀ n e, n ≤ fuel → evTid e < fuel → nf n e ≤ fuel)
    (n0 : Nat) (hn0 : n0 ≤ fuel) (N : Nat) (menu : List S.Op) (ls : List (Option (AtomicObj.Event S.Op S.Res)))
    (s : AtomicObj.State S.σ S.Op S.Res)
    (hex : Exec (AtomicObj.sys S menu N) (AtomicObj.sys S menu N).init ls s)
    (htid : ∀ e ∈ visible ls, evTid e < fuel) :
    (foldObj S fuel nf (n0, [AtomicObj.init S n0]) (visible ls)).2 ≠ [] :=
  Lemmas.ObjComplete.fold_stepObj_complete S fuel nf hmono hinv
    (fun n e hn he => hbound n e hn (by rw [← Lemmas.ObjCompleteC18.evT_eq]; exact he)) n0 hn0 N menu ls s hex
    (fun e h => by rw [Lemmas.ObjCompleteC18.evT_eq]; exact htid e h)

/-- acceptance by the fold = being a history of the atomic-object system -/
theorem fold_stepObj_iff (S : AtomicObj.Spec) [DecidableEq S.σ] [DecidableEq S.Op] [DecidableEq S.Res]
    (fuel : Nat) (nf : Nat → AtomicObj.Event S.Op S.Res → Nat)
    (hmono : ∀ n e, n ≤ nf n e) (hinv : ∀ n t op, t < nf n (.inv t op))
    (hbound : ∀ n e, n ≤ fuel → evTid e < fuel → nf n e ≤ fuel)
    (n0 : Nat) (hn0 : n0 ≤ fuel) (tr : List (AtomicObj.Event S.Op S.Res)) (htid : ∀ e ∈ tr, evTid e < fuel) :
    (foldObj S fuel nf (n0, [AtomicObj.init S n0]) tr).2 ≠ [] ↔
      ∃ (N : Nat) (menu : List S.Op) (ls : List (Option (AtomicObj.Event S.Op S.Res)))
          (s : AtomicObj.State S.σ S.Op S.Res),
        Exec (AtomicObj.sys S menu N) (AtomicObj.sys S menu N).init ls s ∧ visible ls = tr :=
  Lemmas.ObjComplete.fold_stepObj_iff S fuel nf hmono hinv
    (fun n e hn he => hbound n e hn (by rw [← Lemmas.ObjCompleteC18.evT_eq]; exact he)) n0 hn0 tr
    (fun e h => by rw [Lemmas.ObjCompleteC18.evT_eq]; exact htid e h)

/-- acceptance by the fold = linearizability -/
theorem fold_stepObj_iff_linearizable (S : AtomicObj.Spec) [DecidableEq S.σ] [DecidableEq S.Op] [DecidableEq S.Res]
    (fuel : Nat) (nf : Nat → AtomicObj.Event S.Op S.Res → Nat)
    (hmono : ∀ n e, n ≤ nf n e) (hinv : ∀ n t op, t < nf n (.inv t op))
    (hbound : ∀ n e, n ≤ fuel → evTid e < fuel → nf n e ≤ fuel)
    (n0 : Nat) (hn0 : n0 ≤ fuel) (tr : List (AtomicObj.Event S.Op S.Res)) (htid : ∀ e ∈ tr, evTid e < fuel) :
    (foldObj S fuel nf (n0, [AtomicObj.init S n0]) tr).2 ≠ [] ↔ AtomicObj.Linearizable S tr :=
  Lemmas.ObjComplete.fold_stepObj_iff_linearizable S fuel nf hmono hinv
    (fun n e hn he => hbound n e hn (by rw [← Lemmas.ObjCompleteC18.evT_eq]; exact he)) n0 hn0 tr
    (fun e h => by rw [Lemmas.ObjCompleteC18.evT_eq]; exact htid e h)

/-- … in particular for the fold the C18 judge performs (fuel 16, `nextN`, from `[init S 0]`) -/
theorem stepObj_fold_iff_linearizable (S : AtomicObj.Spec) [DecidableEq S.σ] [DecidableEq S.Op] [DecidableEq S.Res]
    (tr : List (AtomicObj.Event S.Op S.Res)) (htid : ∀ e ∈ tr, evTid e < 16) :
    (tr.foldl (fun j e => (nextN j.1 (evTid e), stepObj S (nextN j.1 (evTid e)) j.2 e))
        (0, [AtomicObj.init S 0])).2 ≠ [] ↔ AtomicObj.Linearizable S tr :=
  Lemmas.ObjCompleteC18.jfold_iff_linearizable S tr htid

/-! ## 3. the judge -/

/-- **the AtomicValue judge decides linearizability**: after the header `av` and lines standing for the events `tr`, all of
goroutines `< 16`, the judge reports no violation iff `tr` is linearizable w.r.t. the register specification, and has not
rejected iff `tr` is linearizable w.r.t. the model `AtomicValue.spec` -/
theorem judge_decides_linearizability (st0 : St) (impl0 : String) (lines : List (List Val × String))
    (tr : List AvEvent) (hparse : lines.map (fun l => parseAv l.1) = tr.map some)
    (htid : ∀ e ∈ tr, evTid e < 16) :
    ((runLines (step st0 [.w "av"] impl0).1 lines).violated = none ↔ AtomicObj.Linearizable Spec.Register.spec tr) ∧
    ((runLines (step st0 [.w "av"] impl0).1 lines).rejected = false ↔ AtomicObj.Linearizable AtomicValue.spec tr) := by
  obtain ⟨hS, hM⟩ := Lemmas.ObjCompleteC18.av_flags st0 impl0 lines tr hparse
  exact ⟨hS.trans (Lemmas.ObjCompleteC18.jfold_iff_linearizable Spec.Register.spec tr htid),
         hM.trans (Lemmas.ObjCompleteC18.jfold_iff_linearizable AtomicValue.spec tr htid)⟩

/-- **acceptance is complete**: a linearizable history with goroutine ids `< 16` is not flagged `not-linearizable`
(`violated` stays `none`: in mode `av` that verdict is the only one), and a history linearizable w.r.t. the model is not
rejected -/
theorem judge_accept_complete (st0 : St) (impl0 : String) (lines : List (List Val × String))
    (tr : List AvEvent) (hparse : lines.map (fun l => parseAv l.1) = tr.map some)
    (htid : ∀ e ∈ tr, evTid e < 16) :
    (AtomicObj.Linearizable Spec.Register.spec tr → (runLines (step st0 [.w "av"] impl0).1 lines).violated = none) ∧
    (AtomicObj.Linearizable AtomicValue.spec tr → (runLines (step st0 [.w "av"] impl0).1 lines).rejected = false) := by
  obtain ⟨hS, hM⟩ := judge_decides_linearizability st0 impl0 lines tr hparse htid
  exact ⟨hS.2, hM.2⟩

/-- … so every real history of the model system (any number of goroutines, any menu), if its goroutine ids are `< 16`, passes
both components of the judge (with `C18.register`: a history of the model is linearizable w.r.t. the register) -/
theorem judge_accepts_model_histories (st0 : St) (impl0 : String) (lines : List (List Val × String))
    (N : Nat) (menu : List AtomicValue.Op) (ls : List (Option AvEvent)) (s : AvState)
    (hex : Exec (AtomicObj.sys AtomicValue.spec menu N) (AtomicObj.sys AtomicValue.spec menu N).init ls s)
    (hparse : lines.map (fun l => parseAv l.1) = (visible ls).map some)
    (htid : ∀ e ∈ visible ls, evTid e < 16) :
    (runLines (step st0 [.w "av"] impl0).1 lines).violated = none ∧
    (runLines (step st0 [.w "av"] impl0).1 lines).rejected = false := by
  obtain ⟨hS, hM⟩ := judge_accept_complete st0 impl0 lines (visible ls) hparse htid
  exact ⟨hS (C18.register.2.2.2 menu N ls s hex), hM (C18.AtomicObj.linearizable AtomicValue.spec menu N hex)⟩

/-- **Pool judge, bag component**: a history with goroutine ids `< 16` that is linearizable w.r.t. the atomic bag is never
flagged `not-linearizable` -/
theorem judge_accept_complete_pool (st0 : St) (hn : Int) (impl0 : String) (lines : List (List Val × String))
    (tr : List Pool.Event) (hparse : lines.map (fun l => parsePool l.1) = tr.map some)
    (htid : ∀ e ∈ tr, evTid e < 16) (hlin : AtomicObj.Linearizable (Pool.bagSpec (hn != 0)) tr) :
    (runLines (step st0 [.w "pool", .i hn] impl0).1 lines).violated ≠ some "not-linearizable" := by
  intro hv
  have hempty := (Lemmas.ObjCompleteC18.pool_flags st0 hn impl0 lines tr hparse).2 hv
  exact (Lemmas.ObjCompleteC18.jfold_iff_linearizable (Pool.bagSpec (hn != 0)) tr htid).2 hlin hempty

/-- the two verdicts of the Pool judge about linearizability are both correct (ids `< 16`): no violation ⇒ linearizable
w.r.t. the bag; `not-linearizable` ⇒ not linearizable w.r.t. the bag -/
theorem judge_pool_verdict (st0 : St) (hn : Int) (impl0 : String) (lines : List (List Val × String))
    (tr : List Pool.Event) (hparse : lines.map (fun l => parsePool l.1) = tr.map some)
    (htid : ∀ e ∈ tr, evTid e < 16) :
    ((runLines (step st0 [.w "pool", .i hn] impl0).1 lines).violated = none →
      AtomicObj.Linearizable (Pool.bagSpec (hn != 0)) tr) ∧
    ((runLines (step st0 [.w "pool", .i hn] impl0).1 lines).violated = some "not-linearizable" →
      ¬ AtomicObj.Linearizable (Pool.bagSpec (hn != 0)) tr) :=
  ⟨fun hv => accepted_pool_history_linearizable st0 hn impl0 lines tr hparse hv,
   fun hv hlin => judge_accept_complete_pool st0 hn impl0 lines tr hparse htid hlin hv⟩

end C18

#print axioms C18.AtomicObj.exec_of_linearizable
#print axioms C18.AtomicObj.linearizable_iff_exec
#print axioms C18.AtomicObj.tau_bound
#print axioms C18.fold_stepObj_complete
#print axioms C18.fold_stepObj_iff
#print axioms C18.fold_stepObj_iff_linearizable
#print axioms C18.stepObj_fold_iff_linearizable
#print axioms C18.judge_decides_linearizability
#print axioms C18.judge_accept_complete
#print axioms C18.judge_accepts_model_histories
#print axioms C18.judge_accept_complete_pool
#print axioms C18.judge_pool_verdict
