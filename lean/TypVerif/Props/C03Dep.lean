import TypVerif.Props.C04Flow
/-
C03, tie 4B — a DEPENDENCY: the concurrent set / the keyed mutexes sit on the embedded `sync2.Map`, so a change of the control flow of `sync2/map.go` on any path is a
change under this property as well.  The static label-flow graph of map.go regenerated from the source on every run equals the model's graph plus the one listed artefact
(`C04.gen_flow_eq_merge`, `Props/C04Flow.lean`); restated here so that it is an obligation of C03 too.
-/
namespace C03
open TypVerif.Model.SyncMapConc TypVerif.Lemmas.Smc

theorem gen_dep_map_flow : Gen.MapFlow.edges = flowMerge modelFlow staticOnly := C04.gen_flow_eq_merge

end C03
