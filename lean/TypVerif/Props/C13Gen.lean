import TypVerif.Gen.Chunk
import TypVerif.Model.Chunk
import TypVerif.Spec.Chunk
/-
C13, tie 4B: theorems about the kernels REGENERATED from slices.Chunk / ChunkFunc on every run.
A change of the arithmetic in the Go source changes `Gen.Chunk.*` and these must re-check.
-/
namespace C13
open TypVerif

private theorem tdiv_nonneg_eq (n size : Int) (hn : 0 ≤ n) : Int.tdiv n size = n / size :=
  Int.tdiv_eq_ediv_of_nonneg hn

private theorem qr (n size : Int) (hs : 0 < size) :
    ∃ q r, n / size = q ∧ n % size = r ∧ q * size + r = n ∧ 0 ≤ r ∧ r < size :=
  ⟨_, _, rfl, rfl, Int.ediv_mul_add_emod n size, Int.emod_nonneg n (Int.ne_of_gt hs), Int.emod_lt_of_pos n hs⟩

private theorem ceil_qr (q r size : Int) (hs : 0 < size) (h2 : 0 ≤ r) (h3 : r < size) :
    (q * size + r + size - 1) / size = if r = 0 then q else q + 1 := by
  have hne : size ≠ 0 := Int.ne_of_gt hs
  by_cases hr : r = 0
  · have e : q * size + r + size - 1 = (size - 1) + q * size := by omega
    rw [e, Int.add_mul_ediv_right _ _ hne, Int.ediv_eq_zero_of_lt (by omega) (by omega)]
    simp [hr]
  · have e : q * size + r + size - 1 = (r - 1) + (q + 1) * size := by
      rw [Int.add_mul, Int.one_mul]; omega
    rw [e, Int.add_mul_ediv_right _ _ hne, Int.ediv_eq_zero_of_lt (by omega) (by omega)]
    simp [hr]

/-- the regenerated `lim` is ⌈n/size⌉ for every non-empty slice and every size ≥ 1 -/
theorem gen_lim_is_ceil (n size : Int) (hn : 0 < n) (hs : 0 < size) :
    Gen.Chunk.lim n size = (n + size - 1) / size := by
  unfold Gen.Chunk.lim
  simp only [tdiv_nonneg_eq n size (Int.le_of_lt hn)]
  obtain ⟨q, r, hq, _, h1, h2, h3⟩ := qr n size hs
  rw [hq]
  have hc := ceil_qr q r size hs h2 h3
  rw [h1] at hc
  rw [hc]
  by_cases hr : r = 0
  · have : q * size = n := by omega
    simp [this, hr]
  · have : q * size ≠ n := by omega
    simp [this, hr]

/-- the regenerated kernel agrees with the hand-written model's kernel (which the Props/C13 theorems are about) -/
theorem gen_kernel_eq_model (n size : Nat) :
    (Gen.Chunk.div n size, Gen.Chunk.rounded n size, Gen.Chunk.lim n size)
      = (((Model.Chunk.kernel n size).1 : Int), ((Model.Chunk.kernel n size).2.1 : Int), ((Model.Chunk.kernel n size).2.2 : Int)) := by
  unfold Gen.Chunk.div Gen.Chunk.rounded Gen.Chunk.lim Model.Chunk.kernel
  have h0 : Int.tdiv (n : Int) (size : Int) = ((n / size : Nat) : Int) := by
    rw [Int.tdiv_eq_ediv_of_nonneg (Int.natCast_nonneg n)]; exact (Int.natCast_ediv n size).symm
  simp only [h0]
  have hmul : ((n / size : Nat) : Int) * (size : Int) = ((n / size * size : Nat) : Int) := (Int.natCast_mul _ _).symm
  rw [hmul]
  by_cases h : n / size * size = n
  · have h' : ((n / size * size : Nat) : Int) = (n : Int) := by rw [h]
    simp only [h', h]; simp
  · have h' : ((n / size * size : Nat) : Int) ≠ (n : Int) := fun e => h (Int.ofNat.inj e)
    have hb : (((n / size * size : Nat) : Int) != (n : Int)) = true := by simpa using h'
    have hb2 : ((n / size * size) != n) = true := by simpa using h
    simp only [hb, hb2]; simp

/-- the tail piece exists exactly when size does not divide n -/
theorem gen_tail_iff (n size : Int) (hn : 0 ≤ n) (hs : 0 < size) :
    Gen.Chunk.tail n size = true ↔ n % size ≠ 0 := by
  unfold Gen.Chunk.tail
  simp only [tdiv_nonneg_eq n size hn]
  obtain ⟨q, r, hq, hr', h1, h2, h3⟩ := qr n size hs
  rw [hq, hr']
  by_cases hr : r = 0
  · have : q * size = n := by omega
    simp [this, hr]
  · have : q * size ≠ n := by omega
    simp [this, hr]; omega

theorem gen_funcTail_iff (n size : Int) (hn : 0 ≤ n) (hs : 0 < size) :
    Gen.Chunk.funcTail n size = true ↔ n % size ≠ 0 := by
  unfold Gen.Chunk.funcTail
  simp only [tdiv_nonneg_eq n size hn]
  obtain ⟨q, r, hq, hr', h1, h2, h3⟩ := qr n size hs
  rw [hq, hr']
  by_cases hr : r = 0
  · have : q * size = n := by omega
    simp [this, hr]
  · have : q * size ≠ n := by omega
    simp [this, hr]

/-- the full pieces are `slice[j : j+size]` -/
theorem gen_piece (j size : Int) : Gen.Chunk.pieceLo j size = j ∧ Gen.Chunk.pieceHi j size = j + size := by
  unfold Gen.Chunk.pieceLo Gen.Chunk.pieceHi; omega

example : Gen.Chunk.lim 5 3 = 2 := by decide
example : Gen.Chunk.lim 2 5 = 1 := by decide

end C13
