import TypVerif.Model.RecvQueuedConc
import TypVerif.Lemmas.RecvQueuedConc
/-
C19 — concurrent queued receivers: `g` goroutines call `RecvQueued(ch, limit)` AT ONCE on one channel, no sender
(`/repo/chans/chans.go`; model `Model/RecvQueuedConc.lean`: one loop iteration = one atomic step, any interleaving).
All statements are about every reachable state of `sys p` = every interleaving, any number of goroutines `p.g`, any
`p.limit : Int`, any initial content `p.fill`, open or closed channel.
-/
namespace C19
open TypVerif TypVerif.Conc TypVerif.Model.Chan TypVerif.Model.RecvQueuedConc
open TypVerif.Model.ChanHelpers (Stop fillList)

/-- Conservation.  `s.log` is the ghost record of the values in the order they left the channel, each with its receiver.
In every reachable state: (1) what left the channel, in that order, followed by what is still queued, IS the initial
content (nothing lost, invented, duplicated or reordered); (2) every goroutine holds exactly the values the log
attributes to it, in that order; (3) so the results together are a permutation of what left the channel, and results ++
queue a permutation of the initial content; (4) each goroutine's buffer is a subsequence of the initial content (FIFO),
all its values come from there; (5) the queue is always a suffix of the initial content; (6) the number of goroutines,
the capacity and the closed flag never change; (7) if the initial content has no duplicates then results ++ queue has
none: two different goroutines never hold the same value and no held value is still queued. -/
theorem recvQueued_conc_conservation (p : Params) (s : State) (hr : Reachable (sys p) s) :
    delivered s.log ++ s.ch.buf = p.fill ∧
    (∀ (i : Nat) (g : Gor), s.gs[i]? = some g → g.acc = owned s.log i) ∧
    s.lists.flatten.Perm (delivered s.log) ∧
    (s.lists.flatten ++ s.ch.buf).Perm p.fill ∧
    (∀ g ∈ s.gs, g.acc.Sublist p.fill ∧ ∀ v ∈ g.acc, v ∈ p.fill) ∧
    s.ch.buf <:+ p.fill ∧
    (s.gs.length = p.g ∧ s.ch.cap = p.cap ∧ s.ch.closed = p.closed) ∧
    (p.fill.Nodup →
      (s.lists.flatten ++ s.ch.buf).Nodup ∧
      (∀ (i j : Nat) (a b : Gor), i ≠ j → s.gs[i]? = some a → s.gs[j]? = some b → ∀ v ∈ a.acc, v ∉ b.acc) ∧
      (∀ g ∈ s.gs, ∀ v ∈ g.acc, v ∉ s.ch.buf)) := by
  have inv := Lemmas.RecvQueuedConc.inv_reachable p s hr
  have hperm := Lemmas.RecvQueuedConc.all_perm inv
  refine ⟨inv.cons, inv.own, inv.perm, hperm, ?_, ⟨_, inv.cons⟩, ⟨inv.len, inv.chan.1, inv.chan.2⟩, ?_⟩
  · intro g hg
    have := Lemmas.RecvQueuedConc.acc_sublist inv g hg
    exact ⟨this, fun v hv => this.subset hv⟩
  · intro hn
    have hnd : (s.lists.flatten ++ s.ch.buf).Nodup := hperm.nodup_iff.2 hn
    refine ⟨hnd, ?_, ?_⟩
    · intro i j a b hij ha hb v hv
      exact Lemmas.RecvQueuedConc.disjoint inv hn i j a b hij ha hb v hv
    · intro g hg v hv hq
      have hv' : v ∈ s.lists.flatten :=
        List.mem_flatten.2 ⟨g.acc, List.mem_map.2 ⟨g, hg, rfl⟩, hv⟩
      exact (List.nodup_append.1 hnd).2.2 v hv' v hq rfl

/-- the scenario of the examples: two goroutines, limit 2, an open channel of capacity 3 holding 1, 2, 3 -/
def exP : Params := { g := 2, limit := 2, cap := 3, fill := [1, 2, 3], closed := false }

/-- an explicit interleaving: goroutine 0 takes 1, goroutine 1 takes 2, goroutine 0 takes 3 and returns at its limit,
goroutine 1 finds the channel empty and returns `[2]` by `default` -/
example : ∃ s, Reachable (sys exP) s ∧ s.final ∧ s.lists = [[1, 3], [2]] ∧ s.ch.buf = [] ∧
    s.log = [(0, 1), (1, 2), (0, 3)] ∧ s.gs.map (·.status) = [some Stop.limit, some Stop.default] ∧ exP.fill.Nodup :=
  ⟨_, Lemmas.RecvQueuedConc.reachable_of_run exP [0, 1, 0, 0, 1] _ rfl, by decide, rfl, rfl, rfl, rfl, by decide⟩

/-- another interleaving of the same scenario, stopped in the middle: goroutine 1 has 1 and 2, 3 is still queued -/
example : ∃ s, Reachable (sys exP) s ∧ ¬ s.final ∧ s.lists = [[], [1, 2]] ∧ s.ch.buf = [3] :=
  ⟨_, Lemmas.RecvQueuedConc.reachable_of_run exP [1, 1, 1] _ rfl, by decide, rfl, rfl⟩

/-- The limit: no goroutine ever holds more than `limit` values (`limit.toNat`: for `maxValues ≤ 0` the loop body never
runs and the buffer stays empty). -/
theorem recvQueued_conc_limit (p : Params) (s : State) (hr : Reachable (sys p) s) :
    ∀ g ∈ s.gs, g.acc.length ≤ p.limit.toNat ∧ (0 ≤ p.limit → (g.acc.length : Int) ≤ p.limit) ∧ (p.limit ≤ 0 → g.acc = []) := by
  have inv := Lemmas.RecvQueuedConc.inv_reachable p s hr
  intro g hg
  have h := inv.limit g hg
  refine ⟨h, fun h0 => by omega, fun h0 => ?_⟩
  have : g.acc.length = 0 := by omega
  exact List.length_eq_zero_iff.1 this

/-- limit 1 on the channel holding 1, 2, 3: both goroutines return one value, 3 remains; limit -1: both return nothing at once -/
example : (∃ s, Reachable (sys { exP with limit := 1 }) s ∧ s.final ∧ s.lists = [[1], [2]] ∧ s.ch.buf = [3]) ∧
    (∃ s, Reachable (sys { exP with limit := -1 }) s ∧ s.final ∧ s.lists = [[], []] ∧ s.ch.buf = [1, 2, 3]) :=
  ⟨⟨_, Lemmas.RecvQueuedConc.reachable_of_run _ [0, 1, 0, 1] _ rfl, by decide, rfl, rfl⟩,
   ⟨_, Lemmas.RecvQueuedConc.reachable_of_run _ [1, 0] _ rfl, by decide, rfl, rfl⟩⟩

/-- Early stop.  In every reachable state:
(1) a goroutine that has returned either stopped at the `for` condition, holding exactly `limit` values, or stopped below
    the limit through `!ok` (closed channel) resp. `default` (open channel), and then the channel is empty now;
(2) in particular: returned with fewer than `limit` values ⇒ the channel is empty;
(3) the step in which a goroutine returns with fewer than `limit` values is taken on an empty channel (before and after);
(4) an empty channel stays empty in every continuation (no sender), more generally the queue only loses a prefix;
(5) in a final state (every goroutine has returned) either every list has length `limit` or nothing remains. -/
theorem recvQueued_conc_early_stop (p : Params) (s : State) (hr : Reachable (sys p) s) :
    (∀ g ∈ s.gs, ∀ st, g.status = some st →
      (st = Stop.limit ∧ g.acc.length = p.limit.toNat ∧ p.limit ≤ (g.acc.length : Int)) ∨
      (st = (if p.closed then Stop.closed else Stop.default) ∧ (g.acc.length : Int) < p.limit ∧ s.ch.buf = [])) ∧
    (∀ g ∈ s.gs, g.status ≠ none → (g.acc.length : Int) < p.limit → s.ch.buf = []) ∧
    (∀ (l : Option Event) (s' : State), (l, s') ∈ succ p.limit s → ∀ (i : Nat) (g g' : Gor), s.gs[i]? = some g → s'.gs[i]? = some g' →
      g.status = none → g'.status ≠ none → (g'.acc.length : Int) < p.limit → s.ch.buf = [] ∧ s'.ch.buf = []) ∧
    (∀ (ls : List (Option (sys p).Event)) (s' : (sys p).State), Exec (sys p) s ls s' →
      (s' : State).ch.buf <:+ s.ch.buf ∧ (s.ch.buf = [] → (s' : State).ch.buf = [])) ∧
    (s.final → (∀ g ∈ s.gs, g.acc.length = p.limit.toNat) ∨ s.ch.buf = []) := by
  have inv := Lemmas.RecvQueuedConc.inv_reachable p s hr
  refine ⟨?_, ?_, ?_, ?_, Lemmas.RecvQueuedConc.final_full_or_empty inv⟩
  · intro g hg st hst
    have hl := inv.limit g hg
    rcases inv.early g hg st hst with h | h
    · exact Or.inl ⟨h.1, by have := h.2; omega, h.2⟩
    · exact Or.inr h
  · intro g hg hst hshort
    cases hs : g.status with
    | none => exact absurd hs hst
    | some st =>
      rcases inv.early g hg st hs with h | h
      · have := h.2; omega
      · exact h.2.2
  · intro l s' hmem i g g' hg hg' hst hst' hshort
    exact Lemmas.RecvQueuedConc.step_return_short
      (Lemmas.RecvQueuedConc.step_of_mem_succ (x := (l, s')) hmem) i g g' hg hg' hst hst' hshort
  · intro ls s' hex
    have hsuf := Lemmas.RecvQueuedConc.exec_buf_suffix p ls s s' hex
    refine ⟨hsuf, fun h0 => ?_⟩
    rw [h0] at hsuf
    exact List.suffix_nil.1 hsuf

/-- goroutine 1 returns `[2]` (fewer than 2) on the open empty channel — the step before, the channel was already empty —
and on a closed channel the same run ends with `!ok` (`Stop.closed`) instead of `default` -/
example : (∃ s s', Reachable (sys exP) s ∧ s.ch.buf = [] ∧ (s.gs.map (·.status))[1]? = some none ∧
      stepG exP.limit s 1 = some (some (.ret 1 [2] Stop.default), s') ∧ s'.final ∧ s'.ch.buf = []) ∧
    (∃ s, Reachable (sys { exP with closed := true }) s ∧ s.final ∧ s.lists = [[1, 3], [2]] ∧
      s.gs.map (·.status) = [some Stop.limit, some Stop.closed]) :=
  ⟨⟨_, _, Lemmas.RecvQueuedConc.reachable_of_run exP [0, 1, 0, 0] _ rfl, rfl, rfl, rfl, by decide, rfl⟩,
   ⟨_, Lemmas.RecvQueuedConc.reachable_of_run _ [0, 1, 0, 0, 1] _ rfl, by decide, rfl, rfl⟩⟩

/-- The judge's acceptance predicate for `recvqueuedconc <cap> <fill> <closed> <g> <limit> => <lists> <remaining>`
(`Model.RecvQueuedConc.concVerdict`, the function `Drv/C19.lean` calls; `none` = accepted) accepts every outcome the model
can produce: every final state (all `g` goroutines returned) reached, by any interleaving, from the channel holding
`1..fill`, open or closed, with `lists` = the goroutines' results and `remaining` = the queue. -/
theorem recvQueued_conc_predicate_sound (g : Nat) (limit : Int) (cap fill : Nat) (closed : Bool) (s : State)
    (hr : Reachable (sys { g := g, limit := limit, cap := cap, fill := fillList fill, closed := closed }) s)
    (hf : s.final) :
    concVerdict fill g limit s.lists s.ch.buf = none :=
  Lemmas.RecvQueuedConc.verdict_final fill rfl (Lemmas.RecvQueuedConc.inv_reachable _ s hr) hf

/-- `exP` is such a scenario (`fillList 3 = [1, 2, 3]`), the outcome of the interleaving above is accepted, and the predicate
is not trivially true: it rejects a duplicated value, a lost value, a reordering, an early stop with a value left -/
example : exP = { g := 2, limit := 2, cap := 3, fill := fillList 3, closed := false } ∧
    concVerdict 3 2 2 [[1, 3], [2]] [] = none ∧
    concVerdict 3 2 1 [[1], [2]] [3] = none ∧
    concVerdict 3 2 2 [[1, 3], [3]] [] = some "value-delivered-twice" ∧
    concVerdict 3 2 2 [[1], [2]] [] = some "value-lost" ∧
    concVerdict 3 2 2 [[3, 1], [2]] [] = some "not-fifo" ∧
    concVerdict 3 2 2 [[1], [2]] [3] = some "stopped-early-with-values-queued" ∧
    concVerdict 3 2 1 [[1, 2], []] [3] = some "more-than-limit" ∧
    concVerdict 3 2 2 [[1, 3], []] [2] = some "remaining-not-a-suffix" ∧
    concVerdict 3 2 2 [[1, 0], [2]] [3] = some "invented-value" := by decide

end C19

#print axioms C19.recvQueued_conc_conservation
#print axioms C19.recvQueued_conc_limit
#print axioms C19.recvQueued_conc_early_stop
#print axioms C19.recvQueued_conc_predicate_sound
