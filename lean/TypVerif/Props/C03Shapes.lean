import TypVerif.Gen.MapSetShapes
import TypVerif.Gen.SetsShapes
import TypVerif.Gen.SyncSetShapes
/-
C03, tie 4B — GOLDEN FUNCTION SHAPES (written by tools/mkshapes.py; do not edit by hand).  For every function of the source files this property's model mirrors,
the extractor regenerates on every run: its calls, its stores through selectors / indices / pointers, its conditions and loop headers, its select cases and
its return expressions, in source order.  The theorems below state that these equal the shapes of the tree the model was written against.  They are the STATIC,
all-paths complement of the differential runs: a guard dropped, a fast path or a threshold added, an early return, a changed comparison or a different callee
on ANY path - also one that no generated input happens to take - changes the regenerated list and breaks the `rfl`.  A broken shape theorem is reported like a
broken proof (with a failing input when the search finds one, else `no-failing-input-found`); after a deliberate change of the source the changed functions are
re-read against the model and this file is regenerated.
-/
namespace C03

/-- maps/set.go: 17 function(s) -/
theorem gen_shapes_map_set :
    Gen.MapSetShapes.funcs =
      [("NewSetFromSlice", ["call make", "range slice", "call set.Add", "return set"]),
       ("NewSetFromKeys", ["call make", "range m", "call set.Add", "return set"]),
       ("NewSetFromValues", ["call make", "range m", "call set.Add", "return set"]),
       ("Set.String", ["call sb.WriteByte", "range s", "if addDelim", "call sb.WriteByte", "call fmt.Fprint", "call sb.WriteByte", "return sb.String()", "call sb.String"]),
       ("Set.Len", ["return len(s)", "call len"]),
       ("Set.Has", ["return has"]),
       ("Set.Add", ["if s.Has(value)", "call s.Has", "return false", "store s[value]", "return true"]),
       ("Set.AddSet", ["call set.Range", "if s.Add(value)", "call s.Add", "return true", "return added"]),
       ("Set.Remove", ["if !s.Has(value)", "call s.Has", "return false", "call delete", "return true"]),
       ("Set.RemoveSet", ["call set.Range", "if s.Remove(value)", "call s.Remove", "return true", "return removed"]),
       ("Set.Clone", ["call make", "range s", "call clone.Add", "return clone"]),
       ("Set.Slice", ["call make", "call len", "range s", "call append", "return result"]),
       ("Set.Intersect", ["call make", "range s", "if other.Has(v)", "call other.Has", "call result.Add", "return result"]),
       ("Set.Union", ["call s.Clone", "call result.AddSet", "return result"]),
       ("Set.SetDiff", ["call make", "range s", "if !other.Has(v)", "call other.Has", "call result.Add", "return result"]),
       ("Set.SymDiff", ["call s.SetDiff", "call other.Range", "if !s.Has(value)", "call s.Has", "call result.Add", "return true", "return result"]),
       ("Set.Range", ["range s", "if !f(v)", "call f", "break"])] := rfl

/-- sets/sets.go: 1 function(s) -/
theorem gen_shapes_sets :
    Gen.SetsShapes.funcs =
      [("CartesianProduct", ["call a.Range", "call b.Range", "call append", "return true", "return true", "return result"])] := rfl

/-- sync2/set.go: 17 function(s) -/
theorem gen_shapes_sync_set :
    Gen.SyncSetShapes.funcs =
      [("NewSetFromSlice", ["range slice", "call set.Add", "return &set"]),
       ("NewSetFromKeys", ["range m", "call set.Add", "return &set"]),
       ("NewSetFromValues", ["range m", "call set.Add", "return &set"]),
       ("Set.String", ["call sb.WriteByte", "call s.Range", "if addDelim", "call sb.WriteByte", "call fmt.Fprint", "return true", "call sb.WriteByte", "return sb.String()", "call sb.String"]),
       ("Set.Len", ["call s.Range", "return true", "return count"]),
       ("Set.Has", ["call s.m.Load", "return has"]),
       ("Set.Add", ["call s.m.LoadOrStore", "return !loaded"]),
       ("Set.AddSet", ["call set.Range", "if s.Add(value)", "call s.Add", "return true", "return added"]),
       ("Set.Remove", ["call s.m.LoadAndDelete", "return loaded"]),
       ("Set.RemoveSet", ["call set.Range", "if s.Remove(value)", "call s.Remove", "return true", "return removed"]),
       ("Set.Clone", ["call clone.AddSet", "return &clone"]),
       ("Set.Slice", ["call s.m.Range", "call append", "return true", "return result"]),
       ("Set.Intersect", ["call s.Range", "if other.Has(value)", "call other.Has", "call result.Add", "return true", "return &result"]),
       ("Set.Union", ["call s.Clone", "call result.AddSet", "return result"]),
       ("Set.SetDiff", ["call s.Range", "if !other.Has(v)", "call other.Has", "call result.Add", "return true", "return &result"]),
       ("Set.SymDiff", ["call s.SetDiff", "call other.Range", "if !s.Has(v)", "call s.Has", "call result.Add", "return true", "return result"]),
       ("Set.Range", ["call s.m.Range", "return f(v)", "call f"])] := rfl

end C03
