import TypVerif.Lemmas.KeyedMapConc
import TypVerif.Props.C04conc
/-
C09, the map half on the REAL concurrent map: one mutex per key, for every schedule — a corollary of `C04.conc_linearizable`.

`sync2/keyedmutex.go`: `LockKey(k)` is `m, _ := km.m.LoadOrStore(k, &sync.Mutex{}); m.Lock()` (the same for `TryLockKey`,
`RLockKey`, …), `ClearKey(k)` is `km.m.Delete(k)`.  The C09 theorems (`Props/C09.lean`) are about `Model/KeyedMutex.lean`,
whose modelling decision `MapAtomic` replaces the embedded `sync2.Map` by its ATOMIC specification.  What the keyed mutexes
need from the map is that all goroutines agree on ONE mutex per key — also at the first, simultaneous use of a never-seen
key.  Here that fact is proved for the step-level model of `sync2.Map` (`Model/SyncMapConc.lean`: one step = one atomic
action of `map.go`, any number of goroutines, every interleaving), not for the atomic map:

  in every execution in which the goroutines call any `NoClear k` operations — `LoadOrStore` on any keys with any values
  (the fresh mutexes), `Load`, `Range`, and `Store`/`Delete`/`LoadAndDelete` on keys OTHER than `k` (`ClearKey(k')`, `k' ≠ k`) —
  all completed `LoadOrStore(k, _)` calls return the same `actual`, that value was offered by a `LoadOrStore(k, _)` call, and at
  most one completed call reports `loaded = false` (the one whose value was stored; it offered the agreed value).

"Completed call" = `Lemmas.SetConc.calls hist`: every response of the visible history paired with the operation of the most
recent invocation of the same goroutine (the history is well-formed, so this is the invocation the response answers).

WHAT IS NOT FORMALISED.  These theorems speak about histories of the map alone.  Using them to justify `MapAtomic` — replacing,
inside the keyed-mutex transition system, a linearizable object by its atomic specification — is the observational-refinement
reading of linearizability (a client of a linearizable object observes nothing it could not observe with the atomic one).
That step is NOT formalised here: `Model/KeyedMutex.lean` still contains the atomic map, and no theorem composes the
step-level map model with the mutex automata.
-/
namespace C09
open TypVerif TypVerif.Conc TypVerif.Model TypVerif.Model.AtomicObj
open TypVerif.Model.SyncMapConc (Op Res sys)
open TypVerif.Lemmas.Smc (mapSpec applyOp put del evOf)
open TypVerif.Lemmas.SetConc (calls calls_histOf hist_inv_menu inv_mem_histOf)
open TypVerif.Lemmas.KeyedMapConc

set_option linter.unusedSectionVars false

variable {K V : Type} [DecidableEq K] [DecidableEq V] [Inhabited V]

/-- **The sequential core** (supports C09 through `map_one_mutex`): in a sequential run of the ordinary map made of
operations that neither overwrite nor remove `k` (`NoClear k`: no `Store(k,_)`, `Delete(k)`, `LoadAndDelete(k)`), once
`m k = some w` every `LoadOrStore(k, v)` has returned `(w, true)` — except exactly one, which offered `v = w` and returned
`(w, false)`; while `m k = none` no `LoadOrStore(k, _)` has taken effect. -/
theorem map_seq_one_mutex (k : K) (h : List (Op K V × Res K V)) (σ : K → Option V)
    (hs : SeqRun (mapSpec K V) h σ) (hsafe : ∀ x ∈ h, NoClear k x.1) : KInv k h σ :=
  kinv_seqRun k h σ hs hsafe

/-- **One mutex per key, for any linearizable history of the map.**  If a history of map calls is linearizable with respect to
the ordinary map and all its invocations are `NoClear k`, there is one optional value `ow` (the content of `k` in the
linearization) such that every completed `LoadOrStore(k, v)` call returned `(w, loaded)` with `ow = some w` (and `v = w` if
`loaded = false`), at most one completed call reported `loaded = false`, and if `ow = some w` some goroutine invoked
`LoadOrStore(k, w)`.  Supports C09 through `map_one_mutex` (this is its proof, with `C04.conc_linearizable` supplying the
hypothesis). -/
theorem lin_one_mutex (k : K) (hist : List (Event (Op K V) (Res K V))) (hl : Linearizable (mapSpec K V) hist)
    (hinv : ∀ t op, Event.inv t op ∈ hist → NoClear k op) :
    ∃ ow : Option V,
      (∀ t v r, (t, Op.loadOrStore k v, r) ∈ calls hist →
          ∃ w, ow = some w ∧ (r = .pair w true ∨ (r = .pair w false ∧ v = w))) ∧
      (calls hist).countP (fun c => storedK k c.2) ≤ 1 ∧
      (∀ w, ow = some w → ∃ t, Event.inv t (Op.loadOrStore k w) ∈ hist) := by
  obtain ⟨log0, hh0, ⟨σ0, hseq0⟩, hthr0⟩ := hl
  -- the same with the carrier types of `mapSpec K V` spelled out
  suffices key : ∀ (log : List (Entry (Op K V) (Res K V))) (σ : K → Option V), histOf log = hist →
      SeqRun (mapSpec K V) (linsOf log) σ → (∀ t, (runThread t log).isSome = true) →
      (∀ t op, Event.inv t op ∈ hist → NoClear k op) →
      ∃ ow : Option V,
        (∀ t v r, (t, Op.loadOrStore k v, r) ∈ calls hist →
            ∃ w, ow = some w ∧ (r = .pair w true ∨ (r = .pair w false ∧ v = w))) ∧
        (calls hist).countP (fun c => storedK k c.2) ≤ 1 ∧
        (∀ w, ow = some w → ∃ t, Event.inv t (Op.loadOrStore k w) ∈ hist) from key log0 σ0 hh0 hseq0 hthr0 hinv
  intro log σ hh hseq hthr hinv
  subst hh
  have hsafe : ∀ t op, Entry.inv t op ∈ log → NoClear k op :=
    fun t op hm => hinv t op (inv_mem_histOf log t op hm)
  obtain ⟨h1, h2, h3⟩ := log_agree k log σ hseq hthr hsafe
  rw [calls_histOf]
  refine ⟨σ k, h1, h2, ?_⟩
  intro w hw
  obtain ⟨t, ht, _⟩ := h3 w hw
  exact ⟨t, inv_mem_histOf log t _ ht⟩

/-- **One mutex per key on the real map, every schedule** (master statement).  For any number `n` of goroutines calling, in
any order and any number of times, operations from any finite menu of `NoClear k` operations (`LoadOrStore` on any keys — the
`LockKey`/`TryLockKey`/`RLockKey`… calls with their fresh mutexes —, `Load`, and `ClearKey` on keys other than `k`), in EVERY
execution of the step-level model of `sync2.Map` there is one optional value `ow` (the content of `k` in the linearization) such
that
* every completed `LoadOrStore(k, v)` call returned `(w, loaded)` with `ow = some w`, and `loaded = false` only if `v = w`;
* at most one completed `LoadOrStore(k, _)` call reported `loaded = false`;
* if `ow = some w` then some goroutine invoked `LoadOrStore(k, w)` (the storing call; it may still be pending).
This is the fact `Model/KeyedMutex.lean` (`MapAtomic`) takes from the map for `C09.agree`/`C09.mutex`: all goroutines that
completed the `LoadOrStore` of a keyed call on `k` hold the SAME mutex, which is the fresh mutex of one of them.  The remaining
step — substituting the atomic specification for the linearizable map inside the keyed-mutex transition system — is the
observational-refinement reading of linearizability and is not formalised. -/
theorem map_one_mutex (k : K) (menu : List (Op K V)) (hmenu : ∀ op ∈ menu, NoClear k op) (n : Nat) (zst : Bool)
    {s : SyncMapConc.State K V} {ls : List (Option (SyncMapConc.Event K V))}
    (he : Exec (sys K V menu n zst) (SyncMapConc.init n zst) ls s) :
    ∃ ow : Option V,
      (∀ t v r, (t, Op.loadOrStore k v, r) ∈ calls (ls.filterMap (·.bind evOf)) →
          ∃ w, ow = some w ∧ (r = .pair w true ∨ (r = .pair w false ∧ v = w))) ∧
      (calls (ls.filterMap (·.bind evOf))).countP (fun c => storedK k c.2) ≤ 1 ∧
      (∀ w, ow = some w → ∃ t, Event.inv t (Op.loadOrStore k w) ∈ ls.filterMap (·.bind evOf)) :=
  lin_one_mutex k _ (C04.conc_linearizable menu n zst he) (fun t op hm => hmenu op (hist_inv_menu he t op hm))

/-- **Agreement** (all goroutines get the same mutex for `k`).  Under every schedule of the step-level map model, with no
`Store(k,_)`/`Delete(k)`/`LoadAndDelete(k)` in the menu (no `ClearKey(k)`): any two completed `LoadOrStore(k, _)` calls — of
any goroutines, with any offered values, overlapping or not, including the first simultaneous use of a never-seen key —
return the same `actual`.  Supports `C09.agree`: it is the map-level agreement that `Model/KeyedMutex.lean` gets from
`MapAtomic`, here for the real concurrent map (the substitution of the atomic map into the keyed-mutex system itself is the
observational-refinement reading of linearizability and is not formalised). -/
theorem map_agree (k : K) (menu : List (Op K V)) (hmenu : ∀ op ∈ menu, NoClear k op) (n : Nat) (zst : Bool)
    {s : SyncMapConc.State K V} {ls : List (Option (SyncMapConc.Event K V))}
    (he : Exec (sys K V menu n zst) (SyncMapConc.init n zst) ls s)
    {t1 t2 : Nat} {v1 v2 a1 a2 : V} {l1 l2 : Bool}
    (h1 : (t1, Op.loadOrStore k v1, Res.pair a1 l1) ∈ calls (ls.filterMap (·.bind evOf)))
    (h2 : (t2, Op.loadOrStore k v2, Res.pair a2 l2) ∈ calls (ls.filterMap (·.bind evOf))) : a1 = a2 := by
  obtain ⟨ow, hall, _, _⟩ := map_one_mutex k menu hmenu n zst he
  obtain ⟨w1, hw1, hr1⟩ := hall _ _ _ h1
  obtain ⟨w2, hw2, hr2⟩ := hall _ _ _ h2
  have hw : w1 = w2 := by rw [hw1] at hw2; injection hw2
  have e1 : a1 = w1 := by
    rcases hr1 with h | ⟨h, _⟩ <;> (injection h with h _)
  have e2 : a2 = w2 := by
    rcases hr2 with h | ⟨h, _⟩ <;> (injection h with h _)
  rw [e1, e2, hw]

/-- **The first call stores, once.**  Under the same hypotheses: (1) at most one completed `LoadOrStore(k, _)` call reports
`loaded = false`; (2) every completed `LoadOrStore(k, v)` call returns a `(actual, loaded)` pair, a call reporting
`loaded = false` returns its own value (`actual = v`), and the agreed `actual` was offered by an invocation `LoadOrStore(k,
actual)` in the history (completed or still pending) — the agreed mutex is the fresh mutex of one of the callers.  Supports
`C09.agree`/`C09.mutex` in the same way as `map_agree` (the `MapAtomic` decision of `Model/KeyedMutex.lean`; the
observational-refinement step is not formalised). -/
theorem map_first_stores (k : K) (menu : List (Op K V)) (hmenu : ∀ op ∈ menu, NoClear k op) (n : Nat) (zst : Bool)
    {s : SyncMapConc.State K V} {ls : List (Option (SyncMapConc.Event K V))}
    (he : Exec (sys K V menu n zst) (SyncMapConc.init n zst) ls s) :
    (calls (ls.filterMap (·.bind evOf))).countP (fun c => storedK k c.2) ≤ 1 ∧
    ∀ t v r, (t, Op.loadOrStore k v, r) ∈ calls (ls.filterMap (·.bind evOf)) →
      ∃ a l, r = .pair a l ∧ (l = false → a = v) ∧
        ∃ t', Event.inv t' (Op.loadOrStore k a) ∈ ls.filterMap (·.bind evOf) := by
  obtain ⟨ow, hall, hcnt, hinv⟩ := map_one_mutex k menu hmenu n zst he
  refine ⟨hcnt, ?_⟩
  intro t v r hc
  obtain ⟨w, hw, hr⟩ := hall t v r hc
  rcases hr with h | ⟨h, hv⟩
  · exact ⟨w, true, h, (fun hf => by cases hf), hinv w hw⟩
  · exact ⟨w, false, h, fun _ => hv.symm, hinv w hw⟩

/-- `storedK k` picks exactly the `LoadOrStore(k, _)` calls that reported `loaded = false` -/
theorem map_storedK_iff (k : K) (op : Op K V) (r : Res K V) :
    storedK k (op, r) = true ↔ ∃ v a, op = .loadOrStore k v ∧ r = .pair a false :=
  storedK_iff k op r

/-! Non-vacuity -/

/-- a KeyedMutex-shaped menu on keys 5 and 7: `LockKey(5)` with two different fresh mutexes (10, 20), `LockKey(7)`,
`ClearKey(7)`, a `Load(5)` — everything is `NoClear 5` -/
def kmenu : List (Op Int Int) := [.loadOrStore 5 10, .loadOrStore 5 20, .loadOrStore 7 30, .delete 7, .load 5]

example : ∀ op ∈ kmenu, NoClear 5 op := by decide

/-- the schedule of the example below (indices into `succ`) -/
def ksched : List Nat := [0, 2, 0, 1, 0, 1, 0, 0, 0, 0, 1, 1, 1, 1, 1, 0]

/-- the hypotheses are satisfiable with completed, overlapping calls: two goroutines use the never-seen key 5 simultaneously
(both invoke, both miss in `read`, both queue for `mu`); goroutine 0 wins the lock and stores its value 10, goroutine 1 then
finds it in the dirty map; goroutine 1 returns first.  The 16-step execution of the step-level model has the visible history
below; both calls completed, both got 10, exactly one reported `loaded = false`. -/
example : ∃ ls s, Exec (sys Int Int kmenu 2 false) (SyncMapConc.init 2 false) ls s ∧
    ls.filterMap (·.bind evOf) =
      [.inv 0 (.loadOrStore 5 10), .inv 1 (.loadOrStore 5 20), .res 1 (.pair 10 true), .res 0 (.pair 10 false)] ∧
    calls (ls.filterMap (·.bind evOf)) = [(0, .loadOrStore 5 10, .pair 10 false), (1, .loadOrStore 5 20, .pair 10 true)] ∧
    (calls (ls.filterMap (·.bind evOf))).countP (fun c => storedK 5 c.2) = 1 :=
  ⟨_, _, schedRun_exec (sys Int Int kmenu 2 false) ksched (SyncMapConc.init 2 false), by decide, by decide, by decide⟩

/-- `map_agree` applied to that execution -/
example : (10 : Int) = 10 :=
  map_agree (K := Int) (V := Int) 5 kmenu (by decide) 2 false
    (schedRun_exec (sys Int Int kmenu 2 false) ksched (SyncMapConc.init 2 false))
    (t1 := 0) (t2 := 1) (v1 := 10) (v2 := 20) (l1 := false) (l2 := true) (by decide) (by decide)

/-- the hypothesis `NoClear k` is needed: with a `Delete(5)` (`ClearKey(5)`) between them, two `LoadOrStore(5, _)` calls
legally return different values and both report `loaded = false`, already in a sequential run of the specification -/
example : ∃ σ, SeqRun (mapSpec Int Int)
    [(.loadOrStore 5 20, .pair 20 false), (.delete 5, .done), (.loadOrStore 5 10, .pair 10 false)] σ :=
  ⟨_, SeqRun.cons (SeqRun.cons (SeqRun.cons SeqRun.nil (List.mem_singleton.mpr rfl)) (List.mem_singleton.mpr rfl))
    (List.mem_singleton.mpr rfl)⟩

/-- the sequential core on a concrete run: the second call on key 5 must report the first one's value -/
example : ¬ ∃ σ, SeqRun (mapSpec Int Int) [(.loadOrStore 5 20, .pair 20 true), (.loadOrStore 5 10, .pair 10 false)] σ := by
  rintro ⟨σ, h⟩
  have hs : ∀ x ∈ ([(.loadOrStore 5 20, .pair 20 true), (.loadOrStore 5 10, .pair 10 false)] :
      List (Op Int Int × Res Int Int)), NoClear 5 x.1 := by decide
  have hi := map_seq_one_mutex (5 : Int) _ σ h hs
  cases hm : σ 5 with
  | none => exact (hi.absent hm).1 20 _ List.mem_cons_self
  | some w =>
    obtain ⟨h1, _, _⟩ := hi.present w hm
    have ha := h1 20 _ List.mem_cons_self
    have hb := h1 10 _ (List.mem_cons_of_mem _ List.mem_cons_self)
    have e1 : (20 : Int) = w := by
      rcases ha with h | ⟨h, _⟩ <;> (injection h with h _)
    have e2 : (10 : Int) = w := by
      rcases hb with h | ⟨h, _⟩ <;> (injection h with h _)
    omega

end C09

section AxiomCheck
#print axioms C09.map_seq_one_mutex
#print axioms C09.lin_one_mutex
#print axioms C09.map_one_mutex
#print axioms C09.map_agree
#print axioms C09.map_first_stores
#print axioms C09.map_storedK_iff
end AxiomCheck
