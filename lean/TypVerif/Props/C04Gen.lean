import TypVerif.Gen.MapHooks
import TypVerif.Gen.LockDiscipline
import TypVerif.Model.SyncMapConc
/-
C04 / C05, tie 4B: the atomic sites of `sync2/map.go` and their hooks are REGENERATED from the source on every run
(`/verif/extract`, `Gen/MapHooks.lean`).  The program points of the step-level model (`Model.SyncMapConc.Pc`, the
system the `C04.conc_*` theorems are about and real step traces are replayed in) are exactly these sites:

* `gen_all_atomic_sites_hooked`: every `atomic.*Pointer`, `read.Load/Store` and `mu.Lock()` in map.go is immediately
  preceded by its hook, one site per statement, and every `range` over a map announces its key — so the controlled
  scheduler sees every atomic action (an atomic access added without a hook, or an unmodelled primitive such as
  `TryLock`, breaks this theorem);
* `gen_sites_are_the_models`: the (function, label) list of the source is the list the model was written against
  (a new, removed or moved site breaks it);
* `model_labels_are_sites`: every program point of the model at which a goroutine is parked before an atomic action
  carries the label of one of these sites.
-/
namespace C04
open TypVerif.Model.SyncMapConc

theorem gen_all_atomic_sites_hooked : Gen.MapHooks.unhooked = [] := rfl

/-- the atomic sites the model was written against, (function, hook label) in source order -/
def modelSites : List (String × String) :=
  [("Load", "Load.readLoad1"),
   ("Load", "lock"),
   ("Load", "Load.readLoad2"),
   ("load", "load.loadPtr1"),
   ("Store", "Store.readLoad1"),
   ("Store", "lock"),
   ("Store", "Store.readLoad2"),
   ("Store", "Store.readStore1"),
   ("tryStore", "tryStore.loadPtr1"),
   ("tryStore", "tryStore.casPtr1"),
   ("unexpungeLocked", "unexpungeLocked.casPtr1"),
   ("storeLocked", "storeLocked.storePtr1"),
   ("LoadOrStore", "LoadOrStore.readLoad1"),
   ("LoadOrStore", "lock"),
   ("LoadOrStore", "LoadOrStore.readLoad2"),
   ("LoadOrStore", "LoadOrStore.readStore1"),
   ("tryLoadOrStore", "tryLoadOrStore.loadPtr1"),
   ("tryLoadOrStore", "tryLoadOrStore.casPtr1"),
   ("tryLoadOrStore", "tryLoadOrStore.loadPtr2"),
   ("LoadAndDelete", "LoadAndDelete.readLoad1"),
   ("LoadAndDelete", "lock"),
   ("LoadAndDelete", "LoadAndDelete.readLoad2"),
   ("delete", "delete.loadPtr1"),
   ("delete", "delete.casPtr1"),
   ("Range", "Range.readLoad1"),
   ("Range", "lock"),
   ("Range", "Range.readLoad2"),
   ("Range", "Range.readStore1"),
   ("missLocked", "missLocked.readStore1"),
   ("dirtyLocked", "dirtyLocked.readLoad1"),
   ("tryExpungeLocked", "tryExpungeLocked.loadPtr1"),
   ("tryExpungeLocked", "tryExpungeLocked.casPtr1"),
   ("tryExpungeLocked", "tryExpungeLocked.loadPtr2")]

theorem gen_sites_are_the_models : Gen.MapHooks.sites = modelSites := rfl

/-- one representative of every program counter of the model that is parked before an atomic action -/
def hookPcs : List (Pc Unit Unit) :=
  [.loadRead1 (), .loadLock (), .loadRead2 (), .loadMiss () none, .loadPtr () 0,
   .storeRead1 () (), .tryStoreLoad () () 0, .tryStoreCas () () 0 .nil, .storeLock () (), .storeRead2 () (), .storeUnexp () () 0,
   .storeLocked () () 0, .dirtyRead .store () () [], .expLoad .store () () [] [] () 0, .expCas .store () () [] [] () 0,
   .expLoad2 .store () () [] [] () 0, .readStore .store () () [], .readStore .los () () [],
   .losRead1 () (), .losLoad .fast () () 0, .losCas .fast () () 0, .losLoad2 .fast () () 0, .losLock () (), .losRead2 () (),
   .losUnexp () () 0, .losMiss () .done, .ladRead1 false (), .ladLock false (), .ladRead2 false (), .ladMiss false () none,
   .delLoad false () 0, .delCas false () 0 .nil, .rangeRead1, .rangeLock, .rangeRead2, .rangeStore [], .rangeLoad [] [] () 0]

theorem model_labels_are_sites : ∀ pc ∈ hookPcs, pc.label ∈ modelSites.map Prod.snd := by
  simp [hookPcs, modelSites, Pc.label]

/-- **static lock / atomic discipline of map.go** (regenerated from the source on every run; the static half of "concurrent use is
free of data races" — the dynamic half is the race detector): every access to `m.dirty` / `m.misses` lies in a region where `m.mu`
is held (or in a `…Locked` function, which is only called from such regions), `entry.p` is only ever used as `&e.p` in a
`sync/atomic` call, `m.read` only through the methods of `atomic.Value`, and no statement of map.go stores through a dereferenced pointer (`*p = …`: a value published in an
entry is never written again, so the lock-free readers' `*(*T)(p)` cannot race with a writer) — and the check is not vacuous (21 guarded and 28 atomic
accesses at the time of writing).  With the mutual exclusion of `mu` (`C04.conc_lock_exclusive`) no two goroutines can access a
plain field concurrently. -/
theorem gen_race_discipline :
    Gen.LockDiscipline.mapViolations = [] ∧ 0 < Gen.LockDiscipline.mapGuardedAccesses ∧ 0 < Gen.LockDiscipline.mapAtomicAccesses :=
  ⟨rfl, by decide, by decide⟩

end C04
